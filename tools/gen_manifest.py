#!/usr/bin/env python3
"""Regenerate MANIFEST.json from harness/*/spec.json + tools/claims.json (per-property texts)."""
import json, glob, os
ROOT = os.path.dirname(os.path.dirname(os.path.abspath(__file__)))
claims = json.load(open(ROOT + '/tools/claims.json'))
props = [json.loads(l) for l in open(ROOT + '/properties.jsonl')]
have = {}
for sp in sorted(glob.glob(ROOT + '/harness/*/spec.json')):
    s = json.load(open(sp))
    for e in s['entries']:
        for p in (e.get('properties') or s.get('properties') or []):
            have.setdefault(p, []).append(os.path.basename(os.path.dirname(sp)) + ':' + e['name'])
checks = []
na = []
for p in props:
    pid = p['id']
    c = claims.get(pid, {})
    if pid in have and not c.get('not_applicable'):
        checks.append({
            'property_id': pid,
            'quick_cmd': './check %s --tier quick' % pid,
            'thorough_cmd': './check %s --tier thorough' % pid,
            'evidence_file': 'evidence/%s.json' % pid,
            'replay_cmd_template': 'cat {path}/README.txt; sh {path}/replay.sh',
            'engine': 'ir2c+cbmc',
            'level_claimed': {'category': 'model_checking',
                              'text': c.get('text', 'bounded symbolic model checking of the anchored functions (see DESIGN.md)'),
                              'design_ref': 'DESIGN.md §4 ' + pid},
            'level_note': c.get('note', 'trusted: ir2c translator, clang -O1 lowering, CBMC/SAT, libstdc++/libc models (engine/models), contract stubs and bounds listed in the evidence file; everything beyond the stated bounds is outside the claim'),
            'technique': c.get('technique', 'LLVM IR of the real functions -> C (ir2c) -> CBMC bounded model checking, symbolic inputs; harness entries: ' + ', '.join(have[pid])),
        })
    else:
        na.append({'property_id': pid, 'reason': c.get('not_applicable') or 'no solver-based harness built yet for the anchored code (see DESIGN.md §5/§8)'})
m = {
    'version': 1,
    'setup_cmd': 'python3 tools/setup_check.py',
    'hooks': {'guard': 'LIBABIGAIL_VERIF', 'enable': 'none needed: instrumentation is done on the LLVM IR of the unmodified sources',
              'baseline_off_cmd': 'cd /repo && make -k check', 'source_commits': [], 'add_only': True},
    # (no hook commits: the only commits made in /repo are the unguarded "fix:" commits listed in known-findings.txt)
    'engines': [{'name': 'ir2c+cbmc', 'path': 'engine/ir2c.py', 'serves_properties': sorted(have),
                 'kind_free_text': 'clang++-14 -S -emit-llvm of /repo sources -> own LLVM-IR->C translator -> CBMC 6.11 (SAT) with symbolic inputs, per-harness bounds, unwinding assertions, reachability twins'}],
    'checks': checks,
    'not_applicable': na,
    'notes': 'All checks: ./check <id> --tier quick|thorough. Exit 0 held / 1 confirmed VIOLATION / 2 inconclusive (bound too small, timeout, tool error, unconfirmed counterexample, native mismatch) - never success. Known findings and fix: commits: known-findings.txt. Repairs made in /repo (unguarded fix: commits): bd8cbfa7 (C37), f659fd56 (C33), e1fbd8ea (C34), 2775f49d (C09), 3be06c9e (C33), 8e9a1c19 (C03, C36), d88d7ff3 (C36), ba43844f (C34), a734ddf5 (C24), 5296801f (C25), 58026a27 (C04), cf0ee7ac (C30), 13af947a (C34), f58ab412 (C27).',
}
json.dump(m, open(ROOT + '/MANIFEST.json', 'w'), indent=1)
print('checks: %d, not_applicable: %d' % (len(checks), len(na)))
