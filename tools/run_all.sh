#!/bin/sh
# runs every registered check at one tier; prints one summary line per property (used for the final unchanged-tree run)
tier=${1:-quick}
cd "$(dirname "$0")/.."
for p in $(python3 -c "import json;print(' '.join(c['property_id'] for c in json.load(open('MANIFEST.json'))['checks']))"); do
  ./check $p --tier $tier ${2:-} > /tmp/run_all_$p.log 2>&1; rc=$?
  echo "$p rc=$rc $(tail -1 /tmp/run_all_$p.log)"
done
