#!/bin/sh
# usage: mut.sh <prop> <file relative to repo> <sed expr>   : applies a mutation in the scratch copy, runs the check, restores
M=/var/tmp/mrepo
# scratch copy of /repo (outside /repo and /verif), refreshed on every call; remove it when done: rm -rf /var/tmp/mrepo
rsync -a --delete --exclude .git /repo/ $M/
cp $M/$2 $M/$2.orig
sed -i "$3" $M/$2
if cmp -s $M/$2 $M/$2.orig; then echo "MUTATION DID NOT APPLY"; fi
VERIF_REPO=$M /verif/check $1 --no-evidence $4 2>&1 | grep -v "^WARNING" | grep "VIOLATION\|INCONCLUSIVE\|quick:\|thorough:" | cut -c1-300 | head -8
mv $M/$2.orig $M/$2
