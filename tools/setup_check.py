#!/usr/bin/env python3
"""setup: nothing is built ahead of time (every check regenerates its encoding from /repo); verify tools exist."""
import shutil, sys, subprocess
missing = [t for t in ('clang++-14', 'llvm-link-14', 'cbmc', 'goto-cc', 'g++', 'gcc') if not shutil.which(t)]
if missing:
    print('missing tools: ' + ', '.join(missing)); sys.exit(1)
print(subprocess.run(['cbmc', '--version'], capture_output=True, text=True).stdout.strip())
print('ok')
