#!/usr/bin/env python3
"""setup: nothing is built ahead of time (every check regenerates its encoding from /repo); verify the tools exist."""
import shutil, sys, subprocess, tempfile, os
missing = [t for t in ('clang++-14', 'llvm-link-14', 'cbmc', 'goto-cc', 'g++', 'gcc', 'nm', 'objcopy') if not shutil.which(t)]
if missing:
    print('missing tools: ' + ', '.join(missing)); sys.exit(1)
print(subprocess.run(['cbmc', '--version'], capture_output=True, text=True).stdout.strip())
# the native replay builds with ASan+UBSan: make sure the runtime is there
d = tempfile.mkdtemp(prefix='verif-setup-', dir=os.path.dirname(os.path.abspath(__file__)))
try:
    open(d + '/a.cc', 'w').write('int main(){return 0;}\n')
    r = subprocess.run(['g++', '-fsanitize=address,undefined', d + '/a.cc', '-o', d + '/a.out'], capture_output=True, text=True)
    if r.returncode != 0 or subprocess.run([d + '/a.out']).returncode != 0:
        print('g++ -fsanitize=address,undefined does not work: ' + r.stderr[-500:]); sys.exit(1)
finally:
    shutil.rmtree(d, ignore_errors=True)
print('ok')
