/* tools/abidw.cc:load_corpus_and_write_abixml (real, complete) against contract stubs; the writer inserts bytes into
   the stream it was given through the ostream model WITH FAULT INJECTION (any insertion, flush or close may fail).
   C36: a failed write of the ABIXML output (file given with --out-file, or standard output) gives a non-zero status
   C02: self-check mode (--abidiff): the temporary ABIXML is completely flushed before it is read back, and the
        status is 0 exactly when it was read back and the comparison shows no change */
#include "unit.h"
#include "verif.h"
#define LOAD _Z28load_corpus_and_write_abixmlPPcRSt10shared_ptrIN7abigail2ir11environmentEER7options
typedef struct class_std____cxx11__basic_string vstr_t;
typedef struct { void *p, *c; } sp_t;
extern void *os_target, *os_target_ios; extern _Bool os_failed, os_open_ok; extern u32 os_fail_state; extern u32 os_pending, os_written;
void *os_ios_of(void *os); void os_harness_write(void *os, u32 n);

static _Bool load_failed, wrote, reread_attempted, reread_failed, has_changes_, reported, diffed;
static u32 pending_at_reread;
static u64 obj_pool[10][8]; static u32 obj_n;
static void *fresh(void) { __CPROVER_assert(obj_n < 10, "BOUND: object pool"); __CPROVER_assume(obj_n < 10); return obj_pool[obj_n++]; }
static int64_t tmp_vt[6] = { 8, 0, 0, 0, 0, 0 };
static u64 tmp_stream[80];      /* std::fstream of the temporary file: ostream part at +16, basic_ios at +24 */
static void observe(void *os) { os_target = os; os_target_ios = os_ios_of(os); }

static void nonnull(void *sret) { sp_t *r = sret; r->p = fresh(); r->c = 0; }
void _ZN7abigail12dwarf_reader19create_read_contextERKNSt7__cxx1112basic_stringIcSt11char_traitsIcESaIcEEERKSt6vectorIPPcSaISB_EEPNS_2ir11environmentEbb(void *sret, vstr_t *p, void *v, void *env, u8 a, u8 b) { nonnull(sret); }
void _ZN7abigail12dwarf_reader20read_corpus_from_elfERNS0_12read_contextERNS_10elf_reader6statusE(void *sret, void *ctxt, u32 *status)
{
  sp_t *r = sret; u32 st = nondet_u32();
  __CPROVER_assume(st <= 15);
  _Bool fails = (st & 8) || ((st & 4) && !(st & 2));      /* contract: src/abg-dwarf-reader.cc:read_corpus_from_elf */
  __CPROVER_assume(fails == !(st & 1));
  *status = st; if (fails) load_failed = 1;
  r->p = fails ? 0 : fresh(); r->c = 0;
}
void *_ZN7abigail2ir6corpus15get_environmentEv(void *o) { return obj_pool[9]; }
void _ZN7abigail10xml_writer20create_write_contextEPKNS_2ir11environmentERSo(void *sret, void *env, void *os) { nonnull(sret); observe(os); }
void _ZN7abigail10xml_writer11set_ostreamERNS0_13write_contextERSo(void *c, void *os) { observe(os); }
u8 _ZN7abigail10xml_writer12write_corpusERNS0_13write_contextERKSt10shared_ptrINS_2ir6corpusEEjb(void *c, void *o, u32 i, u8 m)
{ wrote = 1; os_harness_write(os_target, 2); return nondet_bool(); }
void _ZN7abigail11tools_utils9temp_file6createEv(void *sret) { nonnull(sret); }
void *_ZN7abigail11tools_utils9temp_file10get_streamEv(void *t) { return tmp_stream; }
u8 *_ZNK7abigail11tools_utils9temp_file8get_pathEv(void *t) { static u8 path[] = "t"; return path; }
void _ZN7abigail10xml_reader30create_native_xml_read_contextERKNSt7__cxx1112basic_stringIcSt11char_traitsIcESaIcEEEPNS_2ir11environmentE(void *sret, vstr_t *p, void *env)
{ nonnull(sret); reread_attempted = 1; pending_at_reread = os_pending; }
void _ZN7abigail10xml_reader22read_corpus_from_inputERNS0_12read_contextE(void *sret, void *c)
{ sp_t *r = sret; _Bool ok = nondet_bool(); if (!ok) reread_failed = 1; r->p = ok ? fresh() : 0; r->c = 0; }
static void cd_report(struct class_abigail__comparison__corpus_diff *d, struct class_std__basic_ostream *o, vstr_t *indent) { reported = 1; }
static void *cd_vtbl[6];
void _ZN7abigail10comparison12compute_diffESt10shared_ptrINS_2ir6corpusEES4_S1_INS0_12diff_contextEE(void *sret, void *a, void *b, void *c)
{ sp_t *r = sret; void **o = fresh(); o[0] = cd_vtbl; r->p = o; r->c = 0; diffed = 1; }
u8 _ZNK7abigail10comparison11corpus_diff11has_changesEv(void *d) { return has_changes_; }

static u8 opts_mem[1024] __attribute__((aligned(16)));
void h_write(void)
{
  obj_n = 0; load_failed = wrote = reread_attempted = reread_failed = reported = diffed = 0;
  os_failed = 0; os_fail_state = 0; os_pending = 0; os_written = 0; os_target = (void *)obj_pool; os_target_ios = 0;
  tmp_stream[2] = (u64)&tmp_vt[3]; cd_vtbl[2] = (void *)cd_report;
  has_changes_ = nondet_bool(); os_open_ok = nondet_bool();
  __CPROVER_assert(w_opts_size() <= sizeof opts_mem, "BOUND: options struct larger than the harness buffer");
  void *opts = w_opts_new(opts_mem);
  _Bool b[13];
  for (int i = 0; i < 13; i++) b[i] = nondet_bool();
  b[12] = 0;
  w_opts_set(opts, (void *)b);
  _Bool check_alt = b[0], noout = b[2], abidiff = b[3];
  _Bool to_file = nondet_bool();
  vs_make(w_opts_str(opts, 0), "i");
  if (to_file) vs_make(w_opts_str(opts, 1), "o");
  static u8 prog[] = "abidw"; u8 *argv[2] = { prog, 0 };
  sp_t env = { obj_pool[8], 0 };
  u32 rc = LOAD(argv, (void *)&env, opts);

  PROP(!load_failed || rc != 0, "C36-load-failure-nonzero: a binary that could not be read never gives exit status 0");
  if (!abidiff && !check_alt)
    PROP(!(wrote && os_failed) || rc != 0, "C36-write-failure-nonzero: when writing the ABIXML output (to --out-file or to standard output) failed, the exit status is not 0");
  if (!abidiff && !check_alt && !noout && !load_failed && !(to_file && !os_open_ok))
    PROP(wrote, "C36-output-written: without --noout the ABIXML is written");
  if (to_file && !os_open_ok && !abidiff && !check_alt && !noout && !load_failed)
    PROP(rc != 0, "C36-open-failure-nonzero: an output file that cannot be opened gives a non-zero status");
  if (abidiff && !check_alt && !load_failed) {
    PROP(!reread_attempted || os_failed || pending_at_reread == 0, "C02-selfcheck-flushed: the temporary ABIXML is completely flushed before it is read back");
    PROP(reread_attempted, "C02-selfcheck-rereads: --abidiff reads the emitted ABIXML back");
    PROP(!reread_failed || rc != 0, "C02-selfcheck-reread-failure: failing to read the ABIXML back gives a non-zero status");
    PROP(!(diffed && has_changes_) || (rc != 0 && reported), "C02-selfcheck-change-fails: a difference between the binary and its ABIXML gives a non-zero status and a report");
    PROP(!(diffed && !has_changes_ && !os_failed) || rc == 0, "C02-selfcheck-clean-zero: no difference gives status 0");
    PROP(rc != 0 || diffed, "C02-selfcheck-compares: status 0 only after the comparison was made");
  }
  COVER(wrote && os_failed && to_file); COVER(wrote && os_failed && !to_file); COVER(wrote && !os_failed && rc == 0 && to_file);
  COVER(abidiff && diffed && rc == 0); COVER(abidiff && reread_failed); COVER(to_file && !os_open_ok && rc == 1);
  WITNESS_END();
}
