// tools/abidw.cc (copy generated on every run from the current tree, file-local functions given external linkage,
// main renamed abidw_main) + accessors for the C harness.
#include "abidw_ns.cc"
#include <new>
extern "C" {
unsigned long w_opts_size() { return sizeof(options); }
options* w_opts_new(void* mem) { return new (mem) options; }
void w_opts_set(options* o, const bool* b)
{
  o->check_alt_debug_info_path = b[0]; o->show_base_name_alt_debug_info_path = b[1]; o->noout = b[2]; o->abidiff = b[3];
  o->do_log = b[4]; o->show_stats = b[5]; o->load_all_types = b[6]; o->linux_kernel_mode = b[7]; o->show_locs = b[8];
  o->annotate = b[9]; o->drop_private_types = b[10]; o->drop_undefined_syms = b[11]; o->corpus_group_for_linux = b[12];
}
std::string* w_opts_str(options* o, int i) { return i == 0 ? &o->in_file_path : &o->out_file_path; }
}
