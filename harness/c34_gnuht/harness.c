/* C34 - GNU hash table set-up on arbitrary (corrupted) section contents: the real static
   setup_gnu_ht + get_elf_class_size_in_bytes (src/abg-dwarf-reader.cc).  libelf is replaced by
   contract stubs: the section the symbol-table index designates may not exist (arbitrary sh_link),
   its header is arbitrary, the hash section exists (its index comes from elf_ndxscn of a walked section)
   but its data may be unreadable (elf_getdata NULL) or of ANY size from 0 to W 32-bit words with
   arbitrary contents.  Property: no invalid read, no division by zero, no abort/assert. */
#include "unit.h"
#include "verif.h"
#define SETUP _ZN7abigail12dwarf_readerL12setup_gnu_htEP3ElfmmRNS0_6gnu_htE
#ifndef W
#define W 6
#endif
#define HT_IDX 5u
static u64 elf_dummy[8], scn_sym[8], scn_ht[8];
static _Bool symtab_exists, shdr_ok, data_ok;
static u64 sym_size, sym_entsize, sym_idx;
static u8 cls;
static u64 nwords;
static struct struct_Elf_Data data;

void *elf_getscn(void *elf, u64 idx)
{
  if (idx == HT_IDX) return (struct struct_Elf_Scn *)scn_ht;
  if (idx == sym_idx && symtab_exists) return (struct struct_Elf_Scn *)scn_sym;
  return 0;
}
void *gelf_getshdr(void *scn, void *dst_)
{
  struct struct_Elf64_Shdr *dst = dst_;
  if (!shdr_ok) return 0;
  memset(dst, 0, sizeof *dst);
  dst->f5 = sym_size;     /* sh_size */
  dst->f9 = sym_entsize;  /* sh_entsize */
  return dst;
}
void *elf_getdata(void *scn, void *prev)
{
  if (scn != (void *)scn_ht || !data_ok) return 0;
  return &data;
}
void *gelf_getehdr(void *elf, void *dst_)
{
  struct struct_Elf64_Ehdr *dst = dst_;
  memset(dst, 0, sizeof *dst);
  dst->f0[4] = cls;       /* e_ident[EI_CLASS] */
  return dst;
}
static u8 *alloc_words(u64 n)
{
  /* a heap block of exactly n 32-bit words (constant sizes: CBMC needs them) */
  u8 *p;
  switch (n) {
  case 0: p = malloc(1); break; /* d_size == 0: nothing may be read (the harness never hands out this byte as data) */
  case 1: p = malloc(4); break;
  case 2: p = malloc(8); break;
  case 3: p = malloc(12); break;
  case 4: p = malloc(16); break;
  case 5: p = malloc(20); break;
  default: p = malloc(4 * W); break;
  }
  __CPROVER_assume(p != 0);
  return p;
}

void h_setup_gnu_ht(void)
{
  symtab_exists = nondet_bool(); shdr_ok = nondet_bool(); data_ok = nondet_bool();
  sym_size = nondet_u64(); sym_entsize = nondet_u64(); sym_idx = nondet_u64();
  __CPROVER_assume(sym_idx != HT_IDX);
  cls = nondet_u8();
  __CPROVER_assume(cls == 1 || cls == 2);  /* libelf only opens ELFCLASS32/64 files */
  nwords = nondet_u64();
  __CPROVER_assume(nwords <= W && (nwords <= 5 || nwords == W));
  u8 *buf = alloc_words(nwords);
  for (u64 i = 0; i < W; i++) if (i < nwords) ((u32 *)buf)[i] = nondet_u32();
  data.f0 = nwords == 0 ? 0 : buf;  /* d_buf */
  data.f3 = 4 * nwords;             /* d_size */
  struct struct_abigail__dwarf_reader__gnu_ht ht;
  memset(&ht, 0, sizeof ht);
  u8 ok = SETUP((void *)elf_dummy, HT_IDX, sym_idx, &ht);
  if (ok) {
    PROP(symtab_exists && shdr_ok && data_ok && nwords >= 4, "C34-gnuht-setup-true: set-up succeeds only when the symbol table section, its header and a 4-word hash header are readable");
    PROP(ht.f0 != 0 && ht.f0 == ((u32 *)buf)[0], "C34-gnuht-nbuckets: nb_buckets is the first word and non-zero");
  }
  COVER(ok);
  COVER(!ok);
  WITNESS_END();
}
