/* C04 - well-formedness of the attributes the ABIXML writer emits for ELF symbols, dependencies and the corpus header:
   the real write_elf_symbol, write_elf_symbol_aliases, write_elf_symbol_type/_binding/_visibility,
   write_elf_symbol_reference, write_elf_needed and write_corpus (header) of src/abg-writer.cc, with the output stream
   CAPTURED byte for byte (ostream model), the ELF symbol / corpus getters returning SYMBOLIC strings over the XML
   metacharacters, xml::escape_xml_string replaced by its specification (the five predefined entities).
   Property: whatever the strings contain, the fragment has exactly the '<' characters of its own tags, an even number
   of quotes equal to twice the number of attributes it writes, and every '&' starts a predefined entity. */
#include "unit.h"
#include "verif.h"
typedef struct class_std____cxx11__basic_string vstr_t;
typedef struct { void *p, *c; } sp_t;
extern u8 os_buf[]; extern u64 os_len;
#define W(n) _ZN7abigail10xml_writer##n

static u64 stream_obj[40], ctxt_obj[8], sym_obj[4], alias_obj[4], corpus_obj[4], ver_obj[2];
static vstr_t s_name, s_version, s_id, s_alias_id, s_needed[2], s_soname, s_arch, s_path;
static _Bool v_empty, v_default, is_var, has_alias, alias_public, is_common, defined_; static u64 size_, crc_;
static u32 type_, binding_, vis_;

/* a symbolic string of 0..2 bytes over the XML metacharacters and a plain letter */
static void xml_nasty(vstr_t *s, u64 maxlen)
{
  vs_nondet(s, maxlen);
  for (u64 i = 0; i < maxlen; i++) if (i < s->f1) { u8 c = s->f0.f0[i]; __CPROVER_assume(c == '\'' || c == '<' || c == '&' || c == '"' || c == '>' || c == 'a'); }
}
/* specification of xml::escape_xml_string (src/abg-libxml-utils.cc; its own code is not the subject here) */
void _ZN7abigail3xml17escape_xml_stringERKNSt7__cxx1112basic_stringIcSt11char_traitsIcESaIcEEE(vstr_t *out, vstr_t *in)
{
  static u8 buf[16]; u64 n = 0;
  __CPROVER_assert(in->f1 <= 2, "BOUND: escape_xml_string input longer than 2 bytes"); __CPROVER_assume(in->f1 <= 2);
  for (u64 i = 0; i < 2; i++) if (i < in->f1) {
    u8 c = in->f0.f0[i];
    const char *e = c == '<' ? "&lt;" : c == '>' ? "&gt;" : c == '&' ? "&amp;" : c == '\'' ? "&apos;" : c == '"' ? "&quot;" : 0;
    if (e) { for (int k = 0; k < 6 && e[k]; k++) buf[n++] = e[k]; } else buf[n++] = c;
  }
  vs_make_n(out, buf, n);
}
void *W(13write_context11get_ostreamEv)(void *c) { return stream_obj; }
u8 W(8annotateISt10shared_ptrINS_2ir10elf_symbolEEEEbRKT_RNS0_13write_contextEj)(void *s, void *c, u32 i) { return 0; }
/* elf_symbol getters */
vstr_t *_ZNK7abigail2ir10elf_symbol8get_nameB5cxx11Ev(void *s) { return &s_name; }
vstr_t *_ZNK7abigail2ir10elf_symbol13get_id_stringB5cxx11Ev(void *s) { return s == (void *)alias_obj ? &s_alias_id : &s_id; }
u8 _ZNK7abigail2ir10elf_symbol11is_variableEv(void *s) { return is_var; }
u64 _ZNK7abigail2ir10elf_symbol8get_sizeEv(void *s) { return size_; }
void *_ZNK7abigail2ir10elf_symbol11get_versionEv(void *s) { return ver_obj; }
u8 _ZNK7abigail2ir10elf_symbol7version8is_emptyEv(void *v) { return v_empty; }
u8 _ZNK7abigail2ir10elf_symbol7version10is_defaultEv(void *v) { return v_default; }
vstr_t *_ZNK7abigail2ir10elf_symbol7version3strB5cxx11Ev(void *v) { return &s_version; }
u32 _ZNK7abigail2ir10elf_symbol8get_typeEv(void *s) { return type_; }
u32 _ZNK7abigail2ir10elf_symbol11get_bindingEv(void *s) { return binding_; }
u32 _ZNK7abigail2ir10elf_symbol14get_visibilityEv(void *s) { return vis_; }
u8 _ZNK7abigail2ir10elf_symbol14is_main_symbolEv(void *s) { return s == (void *)sym_obj; }
u8 _ZNK7abigail2ir10elf_symbol11has_aliasesEv(void *s) { return has_alias; }
void _ZNK7abigail2ir10elf_symbol14get_next_aliasEv(void *sret, void *s) { sp_t *r = sret; r->c = 0; r->p = !has_alias ? 0 : s == (void *)sym_obj ? (void *)alias_obj : (void *)sym_obj; }
void _ZNK7abigail2ir10elf_symbol15get_main_symbolEv(void *sret, void *s) { sp_t *r = sret; r->c = 0; r->p = sym_obj; }
u8 _ZNK7abigail2ir10elf_symbol9is_publicEv(void *s) { return alias_public; }
u8 _ZNK7abigail2ir10elf_symbol13is_suppressedEv(void *s) { return 0; }
u8 _ZNK7abigail2ir10elf_symbol13is_in_ksymtabEv(void *s) { return 0; }
u8 _ZNK7abigail2ir10elf_symbol10is_definedEv(void *s) { return defined_; }
u8 _ZNK7abigail2ir10elf_symbol16is_common_symbolEv(void *s) { return is_common; }
u64 _ZNK7abigail2ir10elf_symbol7get_crcEv(void *s) { return crc_; }

/* the scanner: counts over the captured bytes */
static u32 n_lt, n_quote, n_bad_amp;
static void scan(void)
{
  n_lt = n_quote = n_bad_amp = 0;
  for (u64 i = 0; i < 200; i++) if (i < os_len) {
    u8 c = os_buf[i];
    if (c == '<') n_lt++;
    if (c == '\'') n_quote++;
    if (c == '&') {
      const u8 *p = &os_buf[i + 1]; u64 r = os_len - i - 1;
      int ok = (r >= 3 && p[0] == 'l' && p[1] == 't' && p[2] == ';') || (r >= 3 && p[0] == 'g' && p[1] == 't' && p[2] == ';')
            || (r >= 4 && p[0] == 'a' && p[1] == 'm' && p[2] == 'p' && p[3] == ';')
            || (r >= 5 && p[0] == 'a' && p[1] == 'p' && p[2] == 'o' && p[3] == 's' && p[4] == ';')
            || (r >= 5 && p[0] == 'q' && p[1] == 'u' && p[2] == 'o' && p[3] == 't' && p[4] == ';');
      if (!ok) n_bad_amp++;
    }
  }
}
static void reset(void) { os_len = 0; stream_obj[0] = 0; }

void h_elf_symbol(void)
{
  reset();
  xml_nasty(&s_name, 1); xml_nasty(&s_version, 1); vs_make(&s_alias_id, "a"); vs_make(&s_id, "a");
  v_empty = nondet_bool(); v_default = nondet_bool(); is_var = nondet_bool(); has_alias = 0 /* aliases: entry h_aliases */; alias_public = nondet_bool();
  is_common = nondet_bool(); defined_ = nondet_bool(); size_ = nondet_u64(); crc_ = nondet_u64();
  /* type/binding/visibility are written from string literals chosen by a switch: concrete here (func, global, default) */
  type_ = 2; binding_ = 1; vis_ = 0;
  sp_t sym = { sym_obj, 0 };
  u8 r = W(16write_elf_symbolERKSt10shared_ptrINS_2ir10elf_symbolEERNS0_13write_contextEj)((void *)&sym, (void *)ctxt_obj, 0);
  scan();
  u32 nattr = 5 + (is_var && size_ ? 1 : 0) + (!v_empty ? 2 : 0) + (has_alias && alias_public ? 1 : 0) + (is_common ? 1 : 0) + (crc_ ? 1 : 0);
  PROP(r, "C04-elf-symbol-written");
  PROP(n_lt == 1, "C04-elf-symbol-no-raw-lt: the only '<' of an <elf-symbol> element is the one opening its tag");
  PROP(n_quote == 2 * nattr, "C04-elf-symbol-quotes-balanced: the element has exactly two quotes per attribute written (no quote inside a value)");
  PROP(n_bad_amp == 0, "C04-elf-symbol-amp-entities: every '&' in the element starts a predefined entity");
  COVER(n_quote == 2 * nattr && s_name.f1 == 1 && s_name.f0.f0[0] == '\''); COVER(!v_empty && crc_ && is_common);
  WITNESS_END();
}

static sp_t needed_vec_items; /* unused */
void h_elf_needed(void)
{
  reset();
  xml_nasty(&s_needed[0], 2); xml_nasty(&s_needed[1], 2);
  u64 n = nondet_u64(); __CPROVER_assume(n <= 2);
  struct { vstr_t *b, *e, *c; } v = { s_needed, s_needed + n, s_needed + 2 };
  u8 r = W(16write_elf_neededERKSt6vectorINSt7__cxx1112basic_stringIcSt11char_traitsIcESaIcEEESaIS7_EERNS0_13write_contextEj)((void *)&v, (void *)ctxt_obj, 0);
  scan();
  PROP((r != 0) == (n != 0), "C04-needed-written");
  PROP(n_lt == n && n_quote == 2 * n && n_bad_amp == 0, "C04-needed-well-formed: each <dependency> element has one '<', two quotes and only entity '&'s whatever the library name contains");
  COVER(n == 2 && s_needed[0].f1 == 2 && s_needed[0].f0.f0[1] == '<');
  WITNESS_END();
}

void h_symbol_ref(void)
{
  reset();
  xml_nasty(&s_id, 2); vs_make(&s_alias_id, "a"); has_alias = 0;
  u8 r = W(26write_elf_symbol_referenceERKNS_2ir10elf_symbolERSo)((void *)sym_obj, (void *)stream_obj);
  scan();
  PROP(r && n_lt == 0 && n_quote == 2 && n_bad_amp == 0, "C04-symbol-reference-well-formed: elf-symbol-id='...' has two quotes, no '<' and only entity '&'s whatever the symbol id contains");
  COVER(s_id.f1 == 2);
  WITNESS_END();
}

void h_aliases(void)
{
  reset();
  xml_nasty(&s_alias_id, 1); vs_make(&s_id, "a");
  has_alias = nondet_bool(); alias_public = nondet_bool();
  u8 r = W(24write_elf_symbol_aliasesERKNS_2ir10elf_symbolERSo)((void *)sym_obj, (void *)stream_obj);
  scan();
  PROP((r != 0) == (has_alias && alias_public), "C04-aliases-written");
  PROP(n_lt == 0 && n_quote == (r ? 2 : 0) && n_bad_amp == 0, "C04-aliases-well-formed: alias='...' has two quotes, no '<' and only entity '&'s whatever the alias ids contain");
  COVER(r && s_alias_id.f1 == 1);
  WITNESS_END();
}

