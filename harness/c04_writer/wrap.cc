// src/abg-writer.cc (copy generated on every run from the current tree; file-local functions given external linkage
// so that the C harness can call them and replace some by contract stubs)
#include "abg-writer_ns.cc"
