/* C37 - hash section selection: find_hash_table_section_index (src/abg-elf-helpers.cc) run over an
   arbitrary section header table.  libelf is replaced by contract stubs over a symbolic table:
   elf_nextscn walks sections 1..n in order, gelf_getshdr returns the header of the section,
   elf_ndxscn its index.  sh_type / sh_link of every section are symbolic. */
#include "unit.h"
#include "verif.h"
#define FIND _ZN7abigail11elf_helpers29find_hash_table_section_indexEP3ElfRmS3_
#ifndef K
#define K 4
#endif
#define SHT_HASH_ 5u
#define SHT_GNU_HASH_ 0x6ffffff6u
struct sc { u32 type, link; };
static struct sc scn[K];
static u64 nscn;
static int elf_dummy;

/* ---- libelf contract stubs (also used, unchanged, by the native replay against the real object) ---- */
void *elf_nextscn(void *elf, void *cur)
{
  if (cur == 0) return nscn > 0 ? (struct struct_Elf_Scn *)&scn[0] : 0;
  u64 i = (u64)((struct sc *)cur - scn);
  return i + 1 < nscn ? (struct struct_Elf_Scn *)&scn[i + 1] : 0;
}
void *gelf_getshdr(void *s, void *dst_)
{
  struct struct_Elf64_Shdr *dst = dst_;
  struct sc *p = s;
  memset(dst, 0, sizeof *dst);
  dst->f1 = p->type;   /* sh_type */
  dst->f6 = p->link;   /* sh_link */
  return dst;
}
u64 elf_ndxscn(void *s) { return (u64)((struct sc *)s - scn) + 1; }

void h_hash_index(void)
{
  nscn = nondet_u64();
  __CPROVER_assume(nscn <= K);
  int has_gnu = 0, has_sysv = 0;
  for (u64 i = 0; i < K; i++) {
    if (i < nscn) {
      u8 sel = nondet_u8();
      u32 any = nondet_u32();
      __CPROVER_assume(sel < 4);
      scn[i].type = sel == 0 ? SHT_HASH_ : sel == 1 ? SHT_GNU_HASH_ : sel == 2 ? 11u : any;
      scn[i].link = nondet_u32();
      if (scn[i].type == SHT_HASH_) has_sysv = 1;
      if (scn[i].type == SHT_GNU_HASH_) has_gnu = 1;
    }
  }
  u64 idx = 0xdead, sym = 0xbeef;
  u32 kind = FIND((struct struct_Elf *)&elf_dummy, &idx, &sym);
  if (!has_gnu && !has_sysv) {
    PROP(kind == 0, "C37-hashidx-none: no hash section => NO_HASH_TABLE_KIND");
    PROP(idx == 0xdead && sym == 0xbeef, "C37-hashidx-none-untouched: outputs untouched when there is no hash section");
  } else {
    PROP(kind == (has_gnu ? 2u : 1u), "C37-hashidx-kind: GNU kind iff a GNU hash section exists, else SysV");
    PROP(idx >= 1 && idx <= nscn, "C37-hashidx-index-range: returned index is a section of the file");
    if (idx >= 1 && idx <= nscn) {
      PROP(scn[idx - 1].type == (kind == 2 ? SHT_GNU_HASH_ : SHT_HASH_),
           "C37-hashidx-kind-matches-section: the returned section index designates a hash section of the returned kind, in whatever order the sections come");
      PROP(sym == scn[idx - 1].link, "C37-hashidx-symtab-link: the symbol table index is the sh_link of the returned section");
    }
  }
  PROP(FIND(0, &idx, &sym) == 0, "C37-hashidx-null: null handle => NO_HASH_TABLE_KIND");
  COVER(has_gnu && has_sysv && nscn == K);
  COVER(has_gnu && has_sysv && scn[0].type == SHT_GNU_HASH_);
  COVER(!has_gnu && has_sysv);
  WITNESS_END();
}
