#include "unit.h"
#include "verif.h"
typedef struct class_std____cxx11__basic_string vstr;
#define DNE _ZN7abigail11tools_utils16decl_names_equalERKNSt7__cxx1112basic_stringIcSt11char_traitsIcESaIcEEES8_
#ifndef N
#define N 4
#endif

static void init_globals(void)
{
  /* static initialisers of abg-tools-utils.cc: `static int X_LEN = strlen(X)`; clang -O1
     shrinks each to an i1 "initialised" flag (true => the constant length). */
  _ZN7abigail11tools_utilsL34ANONYMOUS_STRUCT_INTERNAL_NAME_LENE = 1;
  _ZN7abigail11tools_utilsL33ANONYMOUS_UNION_INTERNAL_NAME_LENE = 1;
  _ZN7abigail11tools_utilsL32ANONYMOUS_ENUM_INTERNAL_NAME_LENE = 1;
}

void h_dne_symmetry(void)
{
  vstr l, r;
  init_globals();
  vs_nondet(&l, N);
  vs_nondet(&r, N);
  u8 a = DNE(&l, &r);
  u8 b = DNE(&r, &l);
  PROP(a == b, "C41-dne-symmetry: decl_names_equal(l,r) == decl_names_equal(r,l)");
  COVER(a == 1 && !vs_eq(&l, &r));
  COVER(a == 0);
  WITNESS_END();
}

/* well-formed qualified name: no empty component around "::" */
static int wf_name(vstr *s)
{
  u64 n = s->f1;
  u8 *p = s->f0.f0;
  if (n == 0) return 0;
  u64 start = 0;
  for (u64 i = 0; i <= N; i++) {
    if (i > n) break;
    if (i == n || (i + 1 < n && p[i] == ':' && p[i + 1] == ':')) {
      if (i == start) return 0;
      if (i == n) break;
      start = i + 2;
      i++;
    }
  }
  return start < n || n == 0 ? 1 : 0;
}

void h_dne_plain_eq(void)
{
  vstr l, r;
  init_globals();
  vs_nondet(&l, N);
  vs_nondet(&r, N);
  __CPROVER_assume(wf_name(&l) && wf_name(&r));
  u8 a = DNE(&l, &r);
  PROP((a != 0) == (vs_eq(&l, &r) != 0), "C41-dne-plain-eq: on names without anonymous parts decl_names_equal is string equality");
  COVER(a == 1);
  COVER(a == 0);
  WITNESS_END();
}
