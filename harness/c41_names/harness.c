#include "unit.h"
#include "verif.h"
typedef struct class_std____cxx11__basic_string vstr;
#define DNE _ZN7abigail11tools_utils16decl_names_equalERKNSt7__cxx1112basic_stringIcSt11char_traitsIcESaIcEEES8_
#ifndef N
#define N 4
#endif

static void init_globals(void)
{
  /* static initialisers of abg-tools-utils.cc: `static int X_LEN = strlen(X)`; clang -O1
     shrinks each to an i1 "initialised" flag (true => the constant length). */
#ifndef VERIF_NATIVE_REAL /* the real object runs its own static initialisers */
  _ZN7abigail11tools_utilsL34ANONYMOUS_STRUCT_INTERNAL_NAME_LENE = 1;
  _ZN7abigail11tools_utilsL33ANONYMOUS_UNION_INTERNAL_NAME_LENE = 1;
  _ZN7abigail11tools_utilsL32ANONYMOUS_ENUM_INTERNAL_NAME_LENE = 1;
#endif
}

void h_dne_symmetry(void)
{
  vstr l, r;
  init_globals();
  vs_nondet(&l, N);
  vs_nondet(&r, N);
  u8 a = DNE(&l, &r);
  u8 b = DNE(&r, &l);
  PROP(a == b, "C41-dne-symmetry: decl_names_equal(l,r) == decl_names_equal(r,l)");
  COVER(a == 1 && !vs_eq(&l, &r));
  COVER(a == 0);
  WITNESS_END();
}

/* well-formed qualified name: no empty component around "::" */
static int wf_name(vstr *s)
{
  u64 n = s->f1;
  u8 *p = s->f0.f0;
  if (n == 0) return 0;
  u64 start = 0;
  for (u64 i = 0; i <= N; i++) {
    if (i > n) break;
    if (i == n || (i + 1 < n && p[i] == ':' && p[i + 1] == ':')) {
      if (i == start) return 0;
      if (i == n) break;
      start = i + 2;
      i++;
    }
  }
  return start < n || n == 0 ? 1 : 0;
}

void h_dne_plain_eq(void)
{
  vstr l, r;
  init_globals();
  vs_nondet(&l, N);
  vs_nondet(&r, N);
  __CPROVER_assume(wf_name(&l) && wf_name(&r));
  u8 a = DNE(&l, &r);
  PROP((a != 0) == (vs_eq(&l, &r) != 0), "C41-dne-plain-eq: on names without anonymous parts decl_names_equal is string equality");
  COVER(a == 1);
  COVER(a == 0);
  WITNESS_END();
}

/* ---------------- anonymous components ---------------- */
#define BEGINS _ZN7abigail11tools_utils18string_begins_withERKNSt7__cxx1112basic_stringIcSt11char_traitsIcESaIcEEES8_
#define ENDS _ZN7abigail11tools_utils16string_ends_withERKNSt7__cxx1112basic_stringIcSt11char_traitsIcESaIcEEES8_
#define SUFFIX _ZN7abigail11tools_utils13string_suffixERKNSt7__cxx1112basic_stringIcSt11char_traitsIcESaIcEEES8_RS6_
#define TRIM _ZN7abigail11tools_utils16trim_white_spaceERKNSt7__cxx1112basic_stringIcSt11char_traitsIcESaIcEEE
#define SPLIT _ZN7abigail11tools_utils12split_stringERKNSt7__cxx1112basic_stringIcSt11char_traitsIcESaIcEEES8_RSt6vectorIS6_SaIS6_EE
#define IS_ASCII _ZN7abigail11tools_utils15string_is_asciiERKNSt7__cxx1112basic_stringIcSt11char_traitsIcESaIcEEE
#define IS_ASCII_ID _ZN7abigail11tools_utils26string_is_ascii_identifierERKNSt7__cxx1112basic_stringIcSt11char_traitsIcESaIcEEE

static const char *anon_prefix(unsigned k)
{
  return k == 0 ? "__anonymous_struct__" : k == 1 ? "__anonymous_union__" : "__anonymous_enum__";
}
/* name = <anon prefix k><digits d (<=2)>[::m]  built in a heap string (len > 15) */
static void mk_anon(vstr *s, unsigned k, int with_member)
{
  u8 buf[32];
  const char *p = anon_prefix(k);
  u64 n = 0;
  for (; p[n]; n++) buf[n] = (u8)p[n];
  u64 nd = nondet_u64();
  __CPROVER_assume(nd <= 2);
  for (u64 i = 0; i < 2; i++)
    if (i < nd) { u8 c = nondet_u8(); __CPROVER_assume(c <= 9); buf[n++] = (u8)('0' + c); }
  if (with_member) { buf[n++] = ':'; buf[n++] = ':'; buf[n++] = 'm'; }
  vs_make_n(s, buf, n);
}

void h_dne_anon(void)
{
  vstr l, r;
  init_globals();
  unsigned kl = nondet_u8(), kr = nondet_u8();
  __CPROVER_assume(kl < 3 && kr < 3);
  _Bool mem = nondet_bool();
  mk_anon(&l, kl, mem);
  mk_anon(&r, kr, mem);
  u8 a = DNE(&l, &r);
  if (kl == kr)
    PROP(a != 0, "C41-dne-anon-same-kind: anonymous components of the same kind compare equal whatever their numbers");
  else
    PROP(a == 0, "C41-dne-anon-diff-kind: anonymous components of different kinds compare different");
  PROP(a == DNE(&r, &l), "C41-dne-symmetry-anon: symmetric on anonymous names");
  COVER(kl == kr && !vs_eq(&l, &r));
  COVER(kl != kr);
  WITNESS_END();
}

/* ---------------- prefix / suffix helpers ---------------- */
static int ref_prefix(vstr *s, vstr *p)
{
  if (p->f1 > s->f1) return 0;
  for (u64 i = 0; i < N; i++) if (i < p->f1 && s->f0.f0[i] != p->f0.f0[i]) return 0;
  return 1;
}
static int ref_suffix(vstr *s, vstr *p)
{
  if (p->f1 > s->f1) return 0;
  u64 off = s->f1 - p->f1;
  for (u64 i = 0; i < N; i++) if (i < p->f1 && s->f0.f0[off + i] != p->f0.f0[i]) return 0;
  return 1;
}

void h_prefix_suffix(void)
{
  vstr s, p, out;
  vs_nondet(&s, N);
  vs_nondet(&p, N);
  vs_make(&out, "zz");
  u8 b = BEGINS(&s, &p);
  /* documented quirk of the real function: an empty str never "begins with" anything */
  PROP((b != 0) == (s.f1 != 0 && ref_prefix(&s, &p)), "C41-begins-with: string_begins_with agrees with its definition");
  u8 e = ENDS(&s, &p);
  PROP((e != 0) == (ref_suffix(&s, &p) != 0), "C41-ends-with: string_ends_with agrees with its definition");
  u8 sf = SUFFIX(&s, &p, &out);
  /* string_suffix: true iff prefix is a proper prefix; then prefix + suffix == input */
  PROP((sf != 0) == (p.f1 < s.f1 && ref_prefix(&s, &p)), "C41-string-suffix-result: true iff proper prefix");
  if (sf) {
    PROP(out.f1 == s.f1 - p.f1, "C41-string-suffix-len: suffix length");
    for (u64 i = 0; i < N; i++)
      if (i < out.f1) PROP(out.f0.f0[i] == s.f0.f0[p.f1 + i], "C41-string-suffix-bytes: suffix bytes");
  } else
    PROP(vs_eq_lit(&out, "zz"), "C41-string-suffix-untouched: output untouched when false");
  COVER(b && p.f1 > 0);
  COVER(e && p.f1 > 0);
  COVER(sf && p.f1 > 0);
  WITNESS_END();
}

/* ---------------- trim_white_space / ascii ---------------- */
static int is_sp(u8 c) { return c == ' ' || (c >= 9 && c <= 13); }
void h_trim(void)
{
  vstr s, out;
  vs_nondet(&s, N);
  TRIM(&out, &s);
  /* reference: strip leading and trailing white space */
  u64 n = s.f1, a = 0, b = n;
  for (u64 i = 0; i < N; i++) if (a == i && i < n && is_sp(s.f0.f0[i])) a = i + 1;
  for (u64 i = 0; i < N; i++) if (b > a && is_sp(s.f0.f0[b - 1])) b--;
  PROP(vs_wf(&out), "C41-trim-wf: result is a well-formed string");
  PROP(out.f1 == b - a, "C41-trim-len: trim_white_space length");
  for (u64 i = 0; i < N; i++)
    if (i < out.f1) PROP(out.f0.f0[i] == s.f0.f0[a + i], "C41-trim-bytes: trim_white_space bytes");
  u8 asc = IS_ASCII(&s), ident = IS_ASCII_ID(&s);
  int all_ascii = 1, all_id = 1;
  for (u64 i = 0; i < N; i++)
    if (i < n) { u8 c = s.f0.f0[i]; if (c > 127) all_ascii = 0; if (c > 127 || c <= 0x1f || c == 0x7f) all_id = 0; }
  PROP((asc != 0) == all_ascii, "C41-is-ascii: string_is_ascii");
  PROP((ident != 0) == all_id, "C41-is-ascii-identifier: string_is_ascii_identifier");
  COVER(a > 0 && b < n && b > a);
  COVER(!asc);
  WITNESS_END();
}

/* ---------------- split_string ---------------- */
#ifndef NS
#define NS 4
#endif
#ifndef ND
#define ND 2
#endif
void h_split(void)
{
  vstr in, delims;
  vs_nondet(&in, NS);
  vs_nondet(&delims, ND);
  void *v = w_vec_new();
  (void)SPLIT(&in, &delims, v);
  /* reference: cut at delimiter bytes, strip leading white space of each raw field, drop empty fields */
  u64 n = in.f1, k = 0;
  u64 fstart[NS + 1], flen[NS + 1];
  u64 cur = 0;
  for (u64 i = 0; i <= NS; i++) {
    if (i > n) break;
    int isdelim = 0;
    if (i < n) for (u64 j = 0; j < ND; j++) if (j < delims.f1 && in.f0.f0[i] == delims.f0.f0[j]) isdelim = 1;
    if (i == n || isdelim) {
      u64 a = cur;
      for (u64 t = 0; t < NS; t++) if (a < i && is_sp(in.f0.f0[a])) a++;
      if (a < i) { fstart[k] = a; flen[k] = i - a; k++; }
      cur = i + 1;
    }
  }
  u64 sz = w_vec_size(v);
  PROP(sz == k, "C41-split-count: split_string returns exactly the non-empty trimmed fields (count)");
  for (u64 f = 0; f < NS; f++) {
    if (f < k && f < sz) {
      vstr *e = w_vec_at(v, f);
      PROP(e->f1 == flen[f], "C41-split-field-len: field length");
      for (u64 t = 0; t < NS; t++) if (t < flen[f] && t < e->f1) PROP(e->f0.f0[t] == in.f0.f0[fstart[f] + t], "C41-split-field-bytes: field bytes in order");
    }
  }
  COVER(k == 2);
  COVER(sz == 2);
  WITNESS_END();
}
