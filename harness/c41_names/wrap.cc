// C++ glue compiled to IR with the unit: lets the C harness inspect a std::vector<std::string>
#include <string>
#include <vector>
extern "C" {
std::vector<std::string>* w_vec_new() { return new std::vector<std::string>(); }
unsigned long w_vec_size(std::vector<std::string>* v) { return v->size(); }
const std::string* w_vec_at(std::vector<std::string>* v, unsigned long i) { return &(*v)[i]; }
}
