/* The seven convenience overloads of diff_utils::compute_diff (include/abg-diff-utils.h) forward to the 9-argument
   core.  Callers that diff a sub-range (a_base != a_begin or b_base != b_begin) get deletion / insertion indexes
   relative to the bases, so an edit script is only applicable to the original sequences if every overload hands
   the core exactly the bases, ranges and output objects it was given (C38: "the computed edit script turns A
   into B").  Here: all overloads, real, against a recording stub of the core. */
#include "unit.h"
#include "verif.h"
static u32 A[4], B[4];
static u32 n_calls;
static void *g_a0, *g_ab, *g_ae, *g_b0, *g_bb, *g_be, *g_lcs, *g_ses; static u32 *g_len;
void _ZN7abigail10diff_utils12compute_diffIPKiNS0_18default_eq_functorEEEvT_S5_S5_S5_S5_S5_RSt6vectorINS0_5pointESaIS7_EERNS0_11edit_scriptERi
  (u32 *a0, u32 *ab, u32 *ae, u32 *b0, u32 *bb, u32 *be, void *lcs, void *ses, u32 *len)
{
  n_calls++;
  g_a0 = a0; g_ab = ab; g_ae = ae; g_b0 = b0; g_bb = bb; g_be = be; g_lcs = lcs; g_ses = ses; g_len = len;
  __CPROVER_assert(len != 0 && lcs != 0 && ses != 0, "C38-overload-outputs-valid: the core receives valid output objects");
  *len = nondet_u32();
}
void h_overloads(void)
{
  u32 ia0 = nondet_u32(), iab = nondet_u32(), iae = nondet_u32(), ib0 = nondet_u32(), ibb = nondet_u32(), ibe = nondet_u32();
  __CPROVER_assume(ia0 <= iab && iab <= iae && iae <= 4 && ib0 <= ibb && ibb <= ibe && ibe <= 4);
  u32 which = nondet_u32(); __CPROVER_assume(which < 7);
  u64 lcs[3] = {0, 0, 0}, ses[6] = {0, 0, 0, 0, 0, 0};   /* empty std::vector<point>, empty edit_script (two empty vectors) */
  u32 len = 77;
  n_calls = 0;
  int has_base = 0, has_lcs = 0, has_len = 0;
  switch (which) {
  case 0: w_o7f(A + iab, A + iae, B + ibb, B + ibe, (void *)lcs, (void *)ses, &len); has_lcs = 1; has_len = 1; break;
  case 1: w_o8f(A + ia0, A + iab, A + iae, B + ib0, B + ibb, B + ibe, (void *)lcs, (void *)ses); has_base = 1; has_lcs = 1; break;
  case 2: w_o6f(A + iab, A + iae, B + ibb, B + ibe, (void *)lcs, (void *)ses); has_lcs = 1; break;
  case 3: w_o6(A + iab, A + iae, B + ibb, B + ibe, (void *)lcs, (void *)ses); has_lcs = 1; break;
  case 4: w_o7bf(A + ia0, A + iab, A + iae, B + ib0, B + ibb, B + ibe, (void *)ses); has_base = 1; break;
  case 5: w_o5f(A + iab, A + iae, B + ibb, B + ibe, (void *)ses); break;
  default: w_o5(A + iab, A + iae, B + ibb, B + ibe, (void *)ses); break;
  }
  PROP(n_calls == 1, "C38-overload-calls-core-once: every convenience overload runs the core exactly once");
  PROP(g_ab == (void *)(A + iab) && g_ae == (void *)(A + iae) && g_bb == (void *)(B + ibb) && g_be == (void *)(B + ibe),
       "C38-overload-ranges: the core diffs exactly the two ranges the caller gave");
  PROP(g_a0 == (void *)(A + (has_base ? ia0 : iab)) && g_b0 == (void *)(B + (has_base ? ib0 : ibb)),
       "C38-overload-bases: deletion and insertion indexes are computed against the caller's bases (or the range starts when no base is given) for BOTH sequences");
  PROP(g_ses == (void *)ses, "C38-overload-script: the edit script is written to the caller's object");
  PROP(!has_lcs || g_lcs == (void *)lcs, "C38-overload-lcs: the common subsequence is written to the caller's object");
  PROP(!has_len || (g_len == &len), "C38-overload-len: the script length is written to the caller's variable");
  COVER(which == 4 && ib0 != ibb); COVER(which == 0); COVER(which == 6); COVER(which == 1 && ia0 != iab);
  WITNESS_END();
}
