// every compute_diff overload of include/abg-diff-utils.h, instantiated over const int* with the default
// equality functor.  The 9-argument core is replaced by a recording contract stub in harness.c.
#include "abg-diff-utils.h"
using namespace abigail::diff_utils;
typedef const int* It;
typedef std::vector<point> lcs_t;
extern "C" {
void w_o7f(It ab, It ae, It bb, It be, lcs_t* lcs, edit_script* ses, int* len)
{ compute_diff<It, default_eq_functor>(ab, ae, bb, be, *lcs, *ses, *len); }
void w_o8f(It a0, It ab, It ae, It b0, It bb, It be, lcs_t* lcs, edit_script* ses)
{ compute_diff<It, default_eq_functor>(a0, ab, ae, b0, bb, be, *lcs, *ses); }
void w_o6f(It ab, It ae, It bb, It be, lcs_t* lcs, edit_script* ses)
{ compute_diff<It, default_eq_functor>(ab, ae, bb, be, *lcs, *ses); }
void w_o6(It ab, It ae, It bb, It be, lcs_t* lcs, edit_script* ses)
{ compute_diff<It>(ab, ae, bb, be, *lcs, *ses); }
void w_o7bf(It a0, It ab, It ae, It b0, It bb, It be, edit_script* ses)
{ compute_diff<It, default_eq_functor>(a0, ab, ae, b0, bb, be, *ses); }
void w_o5f(It ab, It ae, It bb, It be, edit_script* ses)
{ compute_diff<It, default_eq_functor>(ab, ae, bb, be, *ses); }
void w_o5(It ab, It ae, It bb, It be, edit_script* ses)
{ compute_diff<It>(ab, ae, bb, be, *ses); }
}
