/* C15/C43 - member offsets and type sizes from DWARF attributes: the real static die_member_offset,
   read_and_convert_DW_at_bit_offset, die_unsigned_constant_attribute, die_constant_data_member_location,
   die_size_in_bits (src/abg-dwarf-reader.cc) and architecture_is_big_endian (src/abg-elf-helpers.cc) over a SYMBOLIC
   attribute record, for every bit-field layout of the model stated in spec.json, encoded the DWARF<=4 way and the
   DWARF 5 way. */
#include "unit.h"
#include "verif.h"
#define MEMBER_OFFSET _ZN7abigail12dwarf_readerL17die_member_offsetERKNS0_12read_contextEPK9Dwarf_DieRl
#define SIZE_IN_BITS _ZN7abigail12dwarf_readerL16die_size_in_bitsEPK9Dwarf_DieRm
#define FORM_STRX _ZN7abigail12dwarf_readerL20form_is_DW_FORM_strxEj
#define FORM_LINE_STRP _ZN7abigail12dwarf_readerL25form_is_DW_FORM_line_strpEj
enum { A_BYTE_SIZE, A_BIT_OFFSET, A_BIT_SIZE, A_MEMBER_LOC, A_DATA_BIT_OFFSET, NA };
static const u32 at_code[NA] = { 0x0b, 0x0c, 0x0d, 0x38, 0x6b };
static _Bool present[NA]; static u64 value[NA];
static u8 ei_data;
static u64 die_dummy[8];

static int idx_of(u32 code) { for (int i = 0; i < NA; i++) if (at_code[i] == code) return i; return -1; }
/* Dwarf_Attribute = { unsigned code; unsigned form; unsigned char *valp; struct Dwarf_CU *cu; } */
void *dwarf_attr_integrate(void *die, u32 name, void *res)
{ int i = idx_of(name); if (i < 0 || !present[i]) return 0; ((u32 *)res)[0] = name; ((u32 *)res)[1] = 0x0f; return res; }
void *dwarf_attr(void *die, u32 name, void *res) { return dwarf_attr_integrate(die, name, res); }
u32 dwarf_formudata(void *attr, u64 *val)
{ int i = idx_of(((u32 *)attr)[0]); if (i < 0) return (u32)-1; *val = value[i]; return 0; }
u32 dwarf_getlocation(void *attr, struct struct_Dwarf_Op **expr, u64 *len) { return (u32)-1; }
void *gelf_getehdr(void *elf, void *dst_)
{ struct struct_Elf64_Ehdr *dst = dst_; memset(dst, 0, sizeof *dst); dst->f0[5] = ei_data; return dst; }

static struct class_abigail__dwarf_reader__read_context ctx;

static void clear(void) { for (int i = 0; i < NA; i++) { present[i] = 0; value[i] = 0; } }
static void set(int a, u64 v) { present[a] = 1; value[a] = v; }

void h_member_offset(void)
{
  u64 B = nondet_u64(), S = nondet_u64(), p = nondet_u64(), w = nondet_u64();
  _Bool big = nondet_bool(), bitfield = nondet_bool();
  __CPROVER_assume(B < (1ull << 32) && (S == 1 || S == 2 || S == 4 || S == 8) && w >= 1 && p + w <= 8 * S && p < 64 && w <= 64);
  ei_data = big ? 2 : 1;
  memset(&ctx, 0, sizeof ctx);
  int64_t off4 = 0, off5 = 0;
  /* DWARF <= 4 encoding */
  clear(); set(A_MEMBER_LOC, B);
  if (bitfield) { set(A_BYTE_SIZE, S); set(A_BIT_SIZE, w); set(A_BIT_OFFSET, big ? p : 8 * S - p - w); }
  u8 ok4 = MEMBER_OFFSET(&ctx, (void *)die_dummy, &off4);
  /* DWARF 5 encoding of the same member */
  clear();
  if (bitfield) { set(A_DATA_BIT_OFFSET, 8 * B + p); set(A_BIT_SIZE, w); } else set(A_MEMBER_LOC, B);
  u8 ok5 = MEMBER_OFFSET(&ctx, (void *)die_dummy, &off5);
  u64 expect = bitfield ? 8 * B + p : 8 * B;
  PROP(ok4 && (u64)off4 == expect, "C15-offset-dwarf4: the DWARF<=4 encoding (data_member_location, byte_size, bit_size, bit_offset) yields the bit offset the compiler uses");
  PROP(ok5 && (u64)off5 == expect, "C15-offset-dwarf5: the DWARF 5 encoding (data_bit_offset) yields the bit offset the compiler uses");
  PROP(ok4 == ok5 && off4 == off5, "C43-offset-format-independent: both DWARF versions give the same member offset");
  /* no location at all: not a data member with a known offset */
  clear();
  int64_t off0 = 0;
  PROP(!MEMBER_OFFSET(&ctx, (void *)die_dummy, &off0), "C15-no-location: a member without location attributes has no offset");
  COVER(bitfield && !big && p > 0 && w > 1); COVER(bitfield && big); COVER(!bitfield);
  WITNESS_END();
}

void h_type_size(void)
{
  const u64 UNSET = 0xfeedfacecafef00dull;
  u64 bs = nondet_u64(), bits = nondet_u64(), size = UNSET;
  _Bool has_bs = nondet_bool(), has_bits = nondet_bool();
  __CPROVER_assume(bs < (1ull << 60) && bits != UNSET);
  clear(); if (has_bs) set(A_BYTE_SIZE, bs); if (has_bits) set(A_BIT_SIZE, bits);
  /* clang -O1 drops the unused boolean result of this file-local function: success is observed through `size` */
  SIZE_IN_BITS((void *)die_dummy, &size);
  u8 ok = size != UNSET;
  PROP(ok == (has_bs || has_bits), "C15-size-present: a size is recorded exactly when DW_AT_byte_size or DW_AT_bit_size is present");
  PROP(!ok || size == (has_bs ? 8 * bs : bits), "C15-size-value: the recorded size is 8 * DW_AT_byte_size, else DW_AT_bit_size");
  COVER(has_bs); COVER(!has_bs && has_bits); COVER(!ok);
  WITNESS_END();
}

void h_forms(void)
{
  u32 f = nondet_u32();
  /* DW_FORM_strx1..4 = 0x25..0x28, DW_FORM_line_strp = 0x1f (DWARF 5) */
  PROP((FORM_STRX(f) != 0) == (f >= 0x25 && f <= 0x28), "C43-form-strx: exactly the four DWARF 5 strx1..strx4 forms are recognised as indexed strings");
  PROP((FORM_LINE_STRP(f) != 0) == (f == 0x1f), "C43-form-line-strp: exactly DW_FORM_line_strp is recognised as a .debug_line_str reference");
  COVER(f == 0x26); COVER(f == 0);
  WITNESS_END();
}
