// extern "C" wrappers instantiating the inline operators of include/abg-interned-str.h
#include <new>
#include "abg-interned-str.h"
using abigail::interned_string;
using abigail::interned_string_pool;
extern "C" {
bool w_eq(const interned_string* a, const interned_string* b) { return *a == *b; }
bool w_ne(const interned_string* a, const interned_string* b) { return *a != *b; }
bool w_lt(const interned_string* a, const interned_string* b) { return *a < *b; }
bool w_eq_str(const interned_string* a, const std::string* s) { return *a == *s; }
bool w_ne_str(const interned_string* a, const std::string* s) { return *a != *s; }
bool w_str_eq(const std::string* s, const interned_string* a) { return *s == *a; }
bool w_str_ne(const std::string* s, const interned_string* a) { return *s != *a; }
bool w_empty(const interned_string* a) { return a->empty(); }
const std::string* w_raw(const interned_string* a) { return a->raw(); }
unsigned long w_hash(const interned_string* a) { return abigail::hash_interned_string()(*a); }
void w_to_string(const interned_string* a, std::string* out) { new (out) std::string(*a); }
void w_pool_new(interned_string_pool* p) { new (p) interned_string_pool; }
void w_create(interned_string_pool* p, const std::string* s, interned_string* out) { *out = p->create_string(*s); }
bool w_has(const interned_string_pool* p, const char* s) { return p->has_string(s); }
const char* w_get(const interned_string_pool* p, const char* s) { return p->get_string(s); }
}
