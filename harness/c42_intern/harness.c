/* C42 - interned strings: the real interned_string_pool (constructor, create_string, has_string, get_string from
   src/abg-ir.cc, over the real libstdc++ unordered_map<string,string*> template code) and every operator of
   include/abg-interned-str.h, for ALL sequences of NS strings of up to SL bytes over a two-letter alphabet
   (equal contents are therefore frequent) interned into one pool. */
#include "unit.h"
#include "verif.h"
#ifndef NS
#define NS 2
#endif
#ifndef SL
#define SL 2
#endif
typedef struct class_std____cxx11__basic_string vstr_t;
typedef struct class_abigail__interned_string istr_t;

static int content_eq(vstr_t *a, vstr_t *b) { return vs_eq(a, b); }
static int content_lt(vstr_t *a, vstr_t *b)
{
  u64 la = a->f1, lb = b->f1, n = la < lb ? la : lb;
  for (u64 i = 0; i < SL; i++) if (i < n) { u8 x = a->f0.f0[i], y = b->f0.f0[i]; if (x != y) return x < y; }
  return la < lb;
}
void h_intern(void)
{
  static u64 pool_mem[4];
  struct class_abigail__interned_string_pool *pool = (void *)pool_mem;
  vstr_t s[NS]; istr_t is[NS];
  w_pool_new(pool);
  for (int i = 0; i < NS; i++) {
    vs_nondet(&s[i], SL);
    for (u64 k = 0; k < SL; k++) if (k < s[i].f1) __CPROVER_assume(s[i].f0.f0[k] == 'a' || s[i].f0.f0[k] == 'b');
    w_create(pool, &s[i], &is[i]);
  }
  for (int i = 0; i < NS; i++) {
    const vstr_t *raw = w_raw(&is[i]);
    PROP((raw == 0) == (s[i].f1 == 0), "C42-empty-is-null: the empty string, and only it, is interned as the null raw pointer");
    PROP(w_empty(&is[i]) == (s[i].f1 == 0), "C42-empty: empty() iff the content is empty");
    PROP(raw == 0 || content_eq((vstr_t *)raw, &s[i]), "C42-raw-content: the interned object holds the content it was created from");
    PROP(w_eq_str(&is[i], &s[i]) && !w_ne_str(&is[i], &s[i]) && w_str_eq(&s[i], &is[i]) && !w_str_ne(&s[i], &is[i]),
         "C42-equals-own-string: an interned string compares equal to the plain string it stands for, on either side");
    PROP(w_has(pool, s[i].f0.f0), "C42-has-string: the pool reports every interned content");
    { const u8 *g = w_get(pool, s[i].f0.f0);
      PROP(g != 0 && (raw ? g == raw->f0.f0 : g[0] == 0), "C42-get-string: get_string returns the characters of the interned object"); }
    vstr_t back; w_to_string(&is[i], &back);
    PROP(content_eq(&back, &s[i]), "C42-conversion: conversion to std::string gives the content back");
    for (int j = 0; j < NS; j++) {
      int ceq = content_eq(&s[i], &s[j]);
      PROP((w_raw(&is[i]) == w_raw(&is[j])) == ceq, "C42-identity-iff-equal: strings interned in one pool are the same object exactly when their contents are equal");
      PROP(w_eq(&is[i], &is[j]) == ceq && w_ne(&is[i], &is[j]) == !ceq, "C42-eq-like-content: == and != agree with the contents");
      PROP(w_lt(&is[i], &is[j]) == content_lt(&s[i], &s[j]), "C42-order-like-content: < orders like the contents");
      PROP(w_eq_str(&is[i], &s[j]) == ceq && w_str_eq(&s[j], &is[i]) == ceq, "C42-mixed-eq-like-content: comparison with a plain string agrees with the contents");
      PROP(!ceq || w_hash(&is[i]) == w_hash(&is[j]), "C42-equal-implies-equal-hash: equal interned strings have equal hashes");
    }
  }
  COVER(NS > 1 && content_eq(&s[0], &s[1]) && s[0].f1 == SL); COVER(NS > 1 && !content_eq(&s[0], &s[1]) && s[0].f1 == s[1].f1 && s[0].f1 > 0);
  COVER(s[0].f1 == 0);
  WITNESS_END();
}
