/* C27 - abidiff's command line parser (tools/abidiff.cc parse_command_line, real) on
   "abidiff [--keep|--keep-fn|--keep-var|--drop|--drop-fn|--drop-var|--kmi-whitelist|-w|--suppressions|--suppr] OPERAND FILE1 FILE2" with the option before,
   between or after the two files: the pattern reaches exactly the pattern lists that option names, it is consumed
   (not taken for an input file) and both files are still recognized. */
#include "unit.h"
#include "verif.h"
typedef struct class_std____cxx11__basic_string vstr_t;
#ifndef OPTSEL
#define OPTSEL 0
#endif
static const char *const optname[10] = { "--drop", "--drop-fn", "--drop-var", "--keep", "--keep-fn", "--keep-var", "--kmi-whitelist", "-w", "--suppressions", "--suppr" };
/* which of the six lists (drop-fn, drop-var, keep-fn, keep-var, KMI whitelist paths, suppression paths) each option fills */
static const u8 fills[10][6] = { {1,1,0,0,0,0}, {1,0,0,0,0,0}, {0,1,0,0,0,0}, {0,0,1,1,0,0}, {0,0,1,0,0,0}, {0,0,0,1,0,0}, {0,0,0,0,1,0}, {0,0,0,0,1,0}, {0,0,0,0,0,1}, {0,0,0,0,0,1} };
static u64 opts_mem[256];
void h_cmdline(void)
{
  __CPROVER_assert(w_opts_size() <= sizeof opts_mem, "BOUND: options struct larger than the harness buffer");
  __CPROVER_assume(w_opts_size() <= sizeof opts_mem);
  void *o = w_opts_new(opts_mem);
  static u8 prog[] = "abidiff", pat[] = "p.*", f1[] = "a", f2[] = "b";
  u8 *opt = (u8 *)optname[OPTSEL];
#ifndef POS
#define POS 0
#endif
  u32 pos = POS;     /* placement of the option: concrete per entry (spec.json) */
  u8 *argv[6];
  argv[0] = prog; argv[5] = 0;
  if (pos == 0) { argv[1] = opt; argv[2] = pat; argv[3] = f1; argv[4] = f2; }
  else if (pos == 1) { argv[1] = f1; argv[2] = opt; argv[3] = pat; argv[4] = f2; }
  else { argv[1] = f1; argv[2] = f2; argv[3] = opt; argv[4] = pat; }
  u8 ok = _Z18parse_command_lineiPPcR7options(5, argv, o);
  PROP(ok && !w_opts_flag(o, 0) && !w_opts_flag(o, 1), "C27-option-accepted: a keep/drop option with its pattern and two files is a valid command line");
  PROP(vs_eq_lit(w_opts_file(o, 0), "a") && vs_eq_lit(w_opts_file(o, 1), "b"), "C27-pattern-consumed: the pattern operand is consumed by the option; the two input files are the two files given");
  for (int l = 0; l < 6; l++) {
    void *v = w_opts_patterns(o, l);
    u64 n = w_vec_size(v);
    PROP(n == fills[OPTSEL][l], "C27-pattern-lists: the pattern is recorded in exactly the lists the option names");
    if (n == 1 && fills[OPTSEL][l]) PROP(vs_eq_lit(w_vec_at(v, 0), "p.*"), "C27-pattern-text: the recorded pattern is the operand");
  }
  COVER(ok);
  WITNESS_END();
}
