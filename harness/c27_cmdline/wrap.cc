// The real tools/abidiff.cc compiled into the unit (its options struct is file-local), plus accessors for the harness.
#define main abidiff_main
#include "abidiff.cc"
#include <new>
extern "C" {
unsigned long w_opts_size() { return sizeof(options); }
options* w_opts_new(void* mem) { return new (mem) options; }
std::string* w_opts_file(options* o, int i) { return i == 0 ? &o->file1 : i == 1 ? &o->file2 : &o->wrong_option; }
bool w_opts_flag(options* o, int i) { return i == 0 ? o->missing_operand : i == 1 ? o->display_usage : o->display_version; }
std::vector<std::string>* w_opts_patterns(options* o, int i)
{ return i == 0 ? &o->drop_fn_regex_patterns : i == 1 ? &o->drop_var_regex_patterns : i == 2 ? &o->keep_fn_regex_patterns : i == 3 ? &o->keep_var_regex_patterns
    : i == 4 ? &o->kernel_abi_whitelist_paths : &o->suppression_paths; }
unsigned long w_vec_size(std::vector<std::string>* v) { return v->size(); }
std::string* w_vec_at(std::vector<std::string>* v, unsigned long i) { return &(*v)[i]; }
}
