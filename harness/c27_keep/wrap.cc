// access to corpus::exported_decls_builder::priv (src/abg-corpus-priv.h), a private nested class: this wrapper is
// compiled with -fno-access-control (spec.json wrap_flags)
#include "abg-corpus.h"
#include "abg-corpus-priv.h"
using namespace abigail::ir;
typedef corpus::exported_decls_builder::priv edb_priv;
struct holder
{
  corpus::functions fns; corpus::variables vars;
  corpus::strings_type f_suppr, v_suppr, f_keep, v_keep, f_ids, v_ids;
};
extern "C" {
// storage reserved up front: the harness pushes at most 4 strings per list, so push_back never reallocates and
// every vector buffer is one allocation of concrete size (CBMC gave an unconfirmed counterexample through a
// buffer whose allocation size depended on symbolic branches)
holder* w_holder_new()
{
  holder* h = new holder;
  h->f_suppr.reserve(4); h->v_suppr.reserve(4); h->f_keep.reserve(4); h->v_keep.reserve(4); h->f_ids.reserve(4); h->v_ids.reserve(4);
  return h;
}
void w_holder_add(holder* h, int which, const std::string* s)
{ corpus::strings_type* v[6] = { &h->f_suppr, &h->v_suppr, &h->f_keep, &h->v_keep, &h->f_ids, &h->v_ids }; v[which]->push_back(*s); }
edb_priv* w_priv_new(holder* h)
{ return new edb_priv(h->fns, h->vars, h->f_suppr, h->v_suppr, h->f_keep, h->v_keep, h->f_ids, h->v_ids); }
bool w_keep_id(edb_priv* p, const function_decl* f) { return p->keep_wrt_id_of_fns_to_keep(f); }
bool w_keep_suppress(edb_priv* p, const function_decl* f) { return p->keep_wrt_regex_of_fns_to_suppress(f); }
bool w_keep_keep(edb_priv* p, const function_decl* f) { return p->keep_wrt_regex_of_fns_to_keep(f); }
bool w_keep_id_v(edb_priv* p, const var_decl* v) { return p->keep_wrt_id_of_vars_to_keep(v); }
bool w_keep_suppress_v(edb_priv* p, const var_decl* v) { return p->keep_wrt_regex_of_vars_to_suppress(v); }
bool w_keep_keep_v(edb_priv* p, const var_decl* v) { return p->keep_wrt_regex_of_vars_to_keep(v); }
}
