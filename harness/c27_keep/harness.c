/* The keep/drop predicates of corpus::exported_decls_builder::priv (src/abg-corpus-priv.h), real, on a real priv object:
   keep_wrt_id_of_fns_to_keep (abicompat's restriction to the symbols an application uses, C29),
   keep_wrt_regex_of_fns_to_suppress / keep_wrt_regex_of_fns_to_keep (--drop-fn / --keep-fn, KMI whitelists, C27),
   with the real elf_symbol::get_name_and_version_from_id and regex::compile/match. */
#include "unit.h"
#include "verif.h"
typedef struct class_std____cxx11__basic_string vstr_t;
typedef struct { void *p, *c; } sp_t;
static u64 fn_obj[4], sym_obj[4], ver_obj[2];
static vstr_t sym_name, sym_ver, fn_qname; static struct { vstr_t *raw; } fn_qname_i;
static _Bool has_sym; static sp_t sym_sp;
static void *fn_vt[16];
static void *qn(struct class_abigail__ir__decl_base *d, u8 internal) { return &fn_qname_i; }
void *_ZNK7abigail2ir13function_decl10get_symbolEv(void *f) { sym_sp.p = has_sym ? (void *)sym_obj : 0; sym_sp.c = 0; return &sym_sp; }
vstr_t *_ZNK7abigail2ir10elf_symbol8get_nameB5cxx11Ev(void *s) { return &sym_name; }
void *_ZNK7abigail2ir10elf_symbol11get_versionEv(void *s) { return ver_obj; }
vstr_t *_ZNK7abigail2ir10elf_symbol7version3strB5cxx11Ev(void *v) { return &sym_ver; }
/* regcomp/regexec: pattern i (first byte '0'+i) always compiles; matches the function name or not arbitrarily */
static _Bool rx_match[2]; static void *rx_obj[2];
u32 regcomp(void *preg, u8 *pattern, u32 flags) { u32 i = pattern[0] == '1'; rx_obj[i] = preg; return 0; }
u32 regexec(void *preg, u8 *str, u64 n, void *m, u32 flags) { return preg == rx_obj[0] ? !rx_match[0] : preg == rx_obj[1] ? !rx_match[1] : 1; }
void regfree(void *preg) { }

void *_ZNK7abigail2ir8var_decl10get_symbolEv(void *v) { sym_sp.p = has_sym ? (void *)sym_obj : 0; sym_sp.c = 0; return &sym_sp; }
/* -DVARS=1: the variable twins (keep_wrt_*_of_vars_*) with the variable lists of the builder */
#ifndef VARS
#define VARS 0
#endif
#if VARS
#define w_keep_id w_keep_id_v
#define w_keep_suppress w_keep_suppress_v
#define w_keep_keep w_keep_keep_v
#define L_SUPPR 1
#define L_KEEP 3
#define L_IDS 5
#else
#define L_SUPPR 0
#define L_KEEP 2
#define L_IDS 4
#endif
static void mkfn(void)
{
  fn_vt[0] = 0; fn_vt[3 + 9] = (void *)qn; fn_vt[3 + 2] = (void *)qn;   /* get_qualified_name: slot 9 of function_decl, slot 2 of var_decl */ fn_obj[0] = (u64)&fn_vt[3];
  vs_make(&fn_qname, "fn"); fn_qname_i.raw = &fn_qname;
}
void h_keep_by_id(void)
{
  mkfn();
  has_sym = nondet_bool();
  _Bool name_f = nondet_bool(), ver_1 = nondet_bool(), has_ver = nondet_bool();
  vs_make(&sym_name, name_f ? "f" : "g"); vs_make(&sym_ver, has_ver ? (ver_1 ? "1" : "2") : "");
  void *h = w_holder_new();
  /* the list of symbol ids to keep: any subset (in this order) of { "f", "f@@1", "g@2" } */
  _Bool k0 = nondet_bool(), k1 = nondet_bool(), k2 = nondet_bool();
  vstr_t s;
  if (k0) { vs_make(&s, "f"); w_holder_add(h, L_IDS, &s); }
  if (k1) { vs_make(&s, "f@@1"); w_holder_add(h, L_IDS, &s); }
  if (k2) { vs_make(&s, "g@2"); w_holder_add(h, L_IDS, &s); }
  void *p = w_priv_new(h);
  u8 keep = w_keep_id(p, (void *)fn_obj);
  int listed = (k0 && name_f && !has_ver) || (k1 && name_f && has_ver && ver_1) || (k2 && !name_f && has_ver && !ver_1);
  int want = has_sym && ((!k0 && !k1 && !k2) || listed);
  PROP((keep != 0) == want, "C29-keep-exactly-listed-ids: with a list of symbol ids to keep, a function is kept exactly when its symbol's (name, version) is listed; every function with a symbol is kept when the list is empty; a function without symbol never");
  COVER(keep && k1 && !k0); COVER(!keep && has_sym && (k0 || k1 || k2)); COVER(keep && !k0 && !k1 && !k2);
  WITNESS_END();
}
void h_keep_by_regex(void)
{
  mkfn();
  rx_match[0] = nondet_bool(); rx_match[1] = nondet_bool(); rx_obj[0] = rx_obj[1] = 0;
  #ifndef NDROP
#define NDROP 2
#endif
#ifndef NKEEP
#define NKEEP 2
#endif
  u32 n_drop = NDROP, n_keep = NKEEP;   /* list lengths are concrete per entry (spec.json): 0, 1 and 2 patterns */
  void *h = w_holder_new();
  vstr_t s;
  for (u32 i = 0; i < 2; i++) if (i < n_drop) { vs_make(&s, i ? "1d" : "0d"); w_holder_add(h, L_SUPPR, &s); }
  for (u32 i = 0; i < 2; i++) if (i < n_keep) { vs_make(&s, i ? "1k" : "0k"); w_holder_add(h, L_KEEP, &s); }
  void *p = w_priv_new(h);
  u8 ks = w_keep_suppress(p, (void *)fn_obj);
  u8 kk = w_keep_keep(p, (void *)fn_obj);
  int drop_hit = (n_drop > 0 && rx_match[0]) || (n_drop > 1 && rx_match[1]);
  int keep_hit = (n_keep > 0 && rx_match[0]) || (n_keep > 1 && rx_match[1]);
  PROP((ks != 0) == !drop_hit, "C27-drop-patterns: a function is dropped exactly when one of the --drop-fn patterns matches its name");
  PROP((kk != 0) == (n_keep == 0 || keep_hit), "C27-keep-patterns: with --keep-fn patterns a function is kept exactly when one of them matches its name; without any, every function is kept");
  #if NDROP > 0
  COVER(!ks && !rx_match[0] == (NDROP > 1)); COVER(ks);
#endif
#if NKEEP > 0
  COVER(!kk); COVER(kk);
#endif
  WITNESS_END();
}
