/* C08 - exit-status lattice, the part the code decides arithmetically.
   abidiff/abipkgdiff/kmidiff set ABIDIFF_ABI_CHANGE from corpus_diff::has_net_changes() (the reporter's
   diff_has_net_changes) and ABIDIFF_ABI_INCOMPATIBLE_CHANGE from corpus_diff::has_incompatible_changes();
   both are functions of the diff statistics.  Over ARBITRARY statistics (every counter any 64-bit value
   with filtered <= total, which the accessors assert) the real functions are run symbolically:
   incompatible => net change, and "no net change" exactly when every net counter the summary prints is 0.
   The status operators/predicates are checked for all values of the enumeration (0..15). */
#include "unit.h"
#include "verif.h"
#define HAS_INCOMPAT _ZNK7abigail10comparison11corpus_diff24has_incompatible_changesEv
#define NET_DEFAULT _ZNK7abigail10comparison16default_reporter20diff_has_net_changesEPKNS0_11corpus_diffE
#define ST_OR _ZN7abigail11tools_utilsorENS0_14abidiff_statusES1_
#define ST_AND _ZN7abigail11tools_utilsanENS0_14abidiff_statusES1_
#define ST_ORE _ZN7abigail11tools_utilsoRERNS0_14abidiff_statusES1_
#define ST_ERR _ZN7abigail11tools_utils24abidiff_status_has_errorENS0_14abidiff_statusE
#define ST_CHG _ZN7abigail11tools_utils29abidiff_status_has_abi_changeENS0_14abidiff_statusE
#define ST_INC _ZN7abigail11tools_utils42abidiff_status_has_incompatible_abi_changeENS0_14abidiff_statusE
typedef struct struct_abigail__comparison__corpus_diff__diff_stats__priv stats_priv;

static stats_priv sp;
static struct { stats_priv *p; } stats;           /* diff_stats == { unique_ptr<priv> } */
static u64 diff_dummy[64], reporter_dummy[8];
static _Bool soname_chg, arch_chg;

/* ---- contract stubs ---- */
void *
_ZN7abigail10comparison11corpus_diff47apply_filters_and_suppressions_before_reportingEv(void *d)
{ return (struct class_abigail__comparison__corpus_diff__diff_stats *)&stats; }
u8 _ZNK7abigail10comparison11corpus_diff14soname_changedEv(void *d) { return soname_chg; }
u8 _ZNK7abigail10comparison11corpus_diff20architecture_changedEv(void *d) { return arch_chg; }

static u64 pair(u64 *total, u64 *filtered)
{
  u64 t = nondet_u64(), f = nondet_u64();
  __CPROVER_assume(f <= t);   /* invariant the accessors ABG_ASSERT */
  *total = t; *filtered = f;
  return t - f;
}

void h_status_from_stats(void)
{
  memset(&sp, 0, sizeof sp);   /* ctxt_: expired weak_ptr => every "show" option at its default */
  stats.p = &sp;
  soname_chg = nondet_bool(); arch_chg = nondet_bool();
  u64 n_f_rm = pair(&sp.f1, &sp.f2), n_f_add = pair(&sp.f3, &sp.f4), n_f_chg = pair(&sp.f5, &sp.f6);
  sp.f7 = nondet_u64();        /* num_func_with_virt_offset_changes */
  u64 n_v_rm = pair(&sp.f8, &sp.f9), n_v_add = pair(&sp.f10, &sp.f11), n_v_chg = pair(&sp.f12, &sp.f13);
  u64 n_fs_rm = pair(&sp.f14, &sp.f15), n_fs_add = pair(&sp.f16, &sp.f17);
  u64 n_vs_rm = pair(&sp.f18, &sp.f19), n_vs_add = pair(&sp.f20, &sp.f21);
  (void)pair(&sp.f22, &sp.f23); (void)pair(&sp.f24, &sp.f25); (void)pair(&sp.f26, &sp.f27); (void)pair(&sp.f28, &sp.f29);
  u64 n_ut_add = pair(&sp.f30, &sp.f31), n_ut_rm = pair(&sp.f32, &sp.f33), n_ut_chg = pair(&sp.f34, &sp.f35);

  u8 inc = HAS_INCOMPAT((void *)diff_dummy);
  u8 net = NET_DEFAULT((void *)reporter_dummy, (void *)diff_dummy);
  PROP(!inc || net, "C08-incompatible-implies-change: has_incompatible_changes() never holds without has_net_changes() (default reporter)");
  int any = soname_chg || arch_chg || n_f_rm || n_f_add || n_f_chg || n_v_rm || n_v_add || n_v_chg
            || n_fs_rm || n_fs_add || n_vs_rm || n_vs_add || n_ut_add || n_ut_rm || n_ut_chg;
  PROP((net != 0) == (any != 0), "C08-net-change-iff-summary: the change bit is set exactly when a net (unfiltered) count of the summary is non-zero");
  /* the status word as abidiff builds it */
  u32 status = 0;
  if (net) status = 4;                       /* status = ABIDIFF_ABI_CHANGE */
  if (inc) ST_ORE(&status, 8);               /* status |= ABIDIFF_ABI_INCOMPATIBLE_CHANGE */
  PROP((status & ~0xcu) == 0 && (!(status & 8) || (status & 4)), "C08-status-lattice: only documented bits, incompatible never without change");
  PROP((ST_INC(status) != 0) == (inc != 0) && (ST_CHG(status) != 0) == (net != 0) && !ST_ERR(status), "C08-status-predicates: predicates read back the bits");
  COVER(inc && net);
  COVER(!inc && net);
  COVER(!net);
  WITNESS_END();
}

void h_status_ops(void)
{
  u32 l = nondet_u32(), r = nondet_u32();
  /* abidiff_status has no fixed underlying type: its values are exactly 0..15 (other values are UB to load) */
  __CPROVER_assume((l & ~0xfu) == 0 && (r & ~0xfu) == 0);
  PROP(ST_OR(l, r) == (l | r), "C08-op-or: operator| is bitwise or");
  PROP(ST_AND(l, r) == (l & r), "C08-op-and: operator& is bitwise and");
  u32 x = l;
  u32 *ret = ST_ORE(&x, r);
  PROP(x == (l | r) && ret == &x, "C08-op-or-assign: operator|= is bitwise or-assign and returns its left operand");
  PROP((ST_ERR(l) != 0) == ((l & 3u) != 0), "C08-pred-error: has_error iff ERROR or USAGE_ERROR bit");
  PROP((ST_CHG(l) != 0) == ((l & 4u) != 0), "C08-pred-change: has_abi_change iff ABI_CHANGE bit");
  PROP((ST_INC(l) != 0) == ((l & 8u) != 0), "C08-pred-incompatible: has_incompatible_abi_change iff INCOMPATIBLE bit");
  PROP((ST_OR(l, r) & ~0xfu) == 0, "C08-op-closure: documented bits are closed under operator|");
  COVER((l & 8u) && !(l & 4u));
  WITNESS_END();
}
