// a private-types suppression built by the real tools_utils::handle_file_entry (the function gen_suppr_spec_from_headers
// runs for every header file found), queried through the real suppression_matches_type_location;
// -fno-access-control: ir::location's constructor is private (only location_manager creates locations)
#include "abg-suppression.h"
#include "abg-suppression-priv.h"
#include "abg-ir.h"
using namespace abigail::suppr;
extern "C" {
type_suppression_sptr* w_suppr_slot() { static type_suppression_sptr s; s.reset(); return &s; }
const type_suppression* w_suppr_get(type_suppression_sptr* s) { return s->get(); }
bool w_matches_location(const type_suppression* s, unsigned loc_value)
{ abigail::ir::location loc(loc_value, 0); return suppression_matches_type_location(*s, loc); }
bool w_is_private_spec(const type_suppression* s) { return is_private_type_suppr_spec(*s); }
unsigned long w_nkeep(const type_suppression* s) { return s->get_source_locations_to_keep().size(); }
}
