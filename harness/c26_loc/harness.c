/* C26 - public-header filtering.  gen_suppr_spec_from_headers turns every header found under the public directories
   into one call of handle_file_entry (real, here), which builds ONE artificial [suppress_type] whose
   source_location_not_in set holds the header names and whose source_location_not_regexp keeps system headers.
   suppression_matches_type_location (real) then decides, per type location, whether the type is private:
   a type defined in a listed header (by base name or by full path) or in a system header is never filtered;
   a type defined anywhere else is. */
#include "unit.h"
#include "verif.h"
typedef struct class_std____cxx11__basic_string vstr_t;
typedef struct { void *p, *c; } sp_t;
#define HANDLE _ZN7abigail11tools_utilsL17handle_file_entryERKNSt7__cxx1112basic_stringIcSt11char_traitsIcESaIcEEERSt10shared_ptrINS_5suppr16type_suppressionEE
static const char *const paths[5] = { "/inc/a.h", "/inc/b.h", "/src/c.c", "/usr/include/s", "a.h" };
static u32 path_sel;
static _Bool rx_compiled, rx_matches;
/* location::expand(path, line, column): the harness's path */
void _ZNK7abigail2ir8location6expandERNSt7__cxx1112basic_stringIcSt11char_traitsIcESaIcEEERjS9_(void *loc, vstr_t *path, u32 *line, u32 *col)
{ vs_make(path, paths[path_sel]); *line = 1; *col = 1; }
u32 regcomp(void *preg, u8 *pattern, u32 flags) { rx_compiled = 1; return 0; }
u32 regexec(void *preg, u8 *str, u64 n, void *m, u32 flags) { return rx_matches ? 0 : 1; }
void regfree(void *preg) { }
u8 *__xpg_basename(u8 *p) { u8 *r = p; for (u64 i = 0; p[i]; i++) if (p[i] == '/') r = p + i + 1; return r; }
u8 *basename(u8 *p) { return __xpg_basename(p); }

void h_public_headers(void)
{
#ifndef PATHSEL
#define PATHSEL 0
#endif
  path_sel = PATHSEL;    /* where the type is defined: concrete per entry (spec.json) */
  _Bool two = nondet_bool(); rx_matches = nondet_bool(); rx_compiled = 0;
  /* only a system header path can match the system-header pattern "^/usr/include/" */
  __CPROVER_assume(!rx_matches || path_sel == 3);
  void *slot = w_suppr_slot();
  vstr_t h; vs_make(&h, "a.h"); HANDLE(&h, slot);
  if (two) { vstr_t h2; vs_make(&h2, "b.h"); HANDLE(&h2, slot); }
  void *s = w_suppr_get(slot);
  __CPROVER_assert(s != 0, "C26-suppression-built: handle_file_entry creates the suppression");
  __CPROVER_assume(s != 0);
  PROP(w_is_private_spec(s), "C26-is-private-spec: the generated section is recognized as the private-types suppression");
  PROP(w_nkeep(s) == (two ? 2 : 1), "C26-every-header-kept: every header found is recorded as a public location");
  u8 r = w_matches_location(s, 7);
  int in_public = path_sel == 0 || path_sel == 4 || (two && path_sel == 1);
  if (in_public) PROP(!r, "C26-public-type-not-filtered: a type defined in a public header (matched by base name or by full name) is never filtered out");
  if (rx_matches) PROP(!r, "C26-system-header-type-not-filtered: a type defined in a system header is never filtered out");
  if (!in_public && !rx_matches) PROP(r, "C26-private-type-filtered: a type defined outside the public headers is filtered out");
#if PATHSEL == 1
  COVER(!r && two); COVER(r && !two);
#elif PATHSEL == 3
  COVER(!r); COVER(r);
#elif PATHSEL == 2
  COVER(r);
#else
  COVER(!r);
#endif
  WITNESS_END();
}
