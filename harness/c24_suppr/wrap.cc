// extern "C" access to the suppression API (real objects built by the real constructors/setters)
#include "abg-suppression.h"
#include "abg-suppression-priv.h"
#include "abg-sptr-utils.h"
using namespace abigail::suppr;
extern "C" {
type_suppression* w_ts_new(const std::string* name_regex, const std::string* name)
{ return new type_suppression("l", *name_regex, *name); }
void w_ts_set_not_regex(type_suppression* s, const std::string* r) { s->set_type_name_not_regex_str(*r); }
bool w_ts_matches_name(const type_suppression* s, const std::string* type_name)
{ return suppression_matches_type_name(*s, *type_name); }
unsigned w_fn_parse_change_kind(const std::string* s) { return function_suppression::parse_change_kind(*s); }
unsigned w_var_parse_change_kind(const std::string* s) { return variable_suppression::parse_change_kind(*s); }
}
extern "C" {
// a real function_suppression configured through the real setters; cfg[i] says whether property i is given
function_suppression* w_fs_new(const bool* cfg, unsigned change_kind, bool allow_other_aliases)
{
  function_suppression* s = new function_suppression;
  s->set_change_kind(static_cast<function_suppression::change_kind>(change_kind));
  if (cfg[0]) s->set_name("f");
  if (cfg[1]) s->set_name_regex_str("p(");
  if (cfg[2]) s->set_name_not_regex_str("n(");
  if (cfg[3]) s->set_symbol_name("f");
  if (cfg[4]) s->set_symbol_name_regex_str("s(");
  if (cfg[5]) s->set_symbol_name_not_regex_str("t(");
  if (cfg[6]) s->set_symbol_version("1");
  if (cfg[7]) s->set_symbol_version_regex_str("v(");
  if (cfg[8]) s->set_return_type_name("int");
  if (cfg[9]) s->set_return_type_regex_str("r(");
  s->set_allow_other_aliases(allow_other_aliases);
  return s;
}
bool w_fs_suppresses(const function_suppression* s, const abigail::ir::function_decl* fn, unsigned k)
{ return s->suppresses_function(fn, static_cast<function_suppression::change_kind>(k), abigail::comparison::diff_context_sptr()); }
}
extern "C" {
// a real type_suppression named "T" with n integer insertion ranges [begins[i], ends[i]]
type_suppression* w_ts_with_ranges(unsigned n, const int* begins, const int* ends)
{
  type_suppression* s = new type_suppression("l", "", "T");
  type_suppression::insertion_ranges r;
  r.reserve(2);
  for (unsigned i = 0; i < n; ++i)
    r.push_back(type_suppression::insertion_range_sptr
		(new type_suppression::insertion_range
		 (type_suppression::insertion_range::create_integer_boundary(begins[i]),
		  type_suppression::insertion_range::create_integer_boundary(ends[i])),
		 abigail::sptr_utils::noop_deleter()));   // (the class's destructor needs its private part)
  s->set_data_member_insertion_ranges(r);
  return s;
}
bool w_ts_suppresses_diff(const type_suppression* s, const abigail::comparison::diff* d) { return s->suppresses_diff(d); }
}
extern "C" {
// a real fn_call_expr_boundary wrapping a harness-owned function_call_expr (its name and arguments are what the
// harness's function_call_expr::get_name / get_arguments stubs say), and eval_boundary on it
type_suppression::insertion_range::boundary_sptr* w_fn_boundary(void* fake_expr)
{
  static type_suppression::insertion_range::boundary_sptr b;
  b = type_suppression::insertion_range::create_fn_call_expr_boundary
    (abigail::ini::function_call_expr_sptr(static_cast<abigail::ini::function_call_expr*>(fake_expr), abigail::sptr_utils::noop_deleter()));
  return &b;
}
bool w_eval_boundary(type_suppression::insertion_range::boundary_sptr* b, void* fake_class, uint64_t* v)
{
  return type_suppression::insertion_range::eval_boundary
    (*b, abigail::ir::class_decl_sptr(static_cast<abigail::ir::class_decl*>(fake_class), abigail::sptr_utils::noop_deleter()), *v);
}
}
extern "C" {
// a real variable_suppression configured through the real setters; cfg[i] says whether property i is given
variable_suppression* w_vs_new(const bool* cfg, unsigned change_kind)
{
  variable_suppression* s = new variable_suppression;
  s->set_change_kind(static_cast<variable_suppression::change_kind>(change_kind));
  if (cfg[0]) s->set_name("f");
  if (cfg[1]) s->set_name_regex_str("p(");
  if (cfg[2]) s->set_name_not_regex_str("n(");
  if (cfg[3]) s->set_symbol_name("f");
  if (cfg[4]) s->set_symbol_name_regex_str("s(");
  if (cfg[5]) s->set_symbol_name_not_regex_str("t(");
  if (cfg[6]) s->set_symbol_version("1");
  if (cfg[7]) s->set_symbol_version_regex_str("v(");
  if (cfg[8]) s->set_type_name("int");
  if (cfg[9]) s->set_type_name_regex_str("r(");
  return s;
}
bool w_vs_suppresses(const variable_suppression* s, const abigail::ir::var_decl* v, unsigned k)
{ return s->suppresses_variable(v, static_cast<variable_suppression::change_kind>(k), abigail::comparison::diff_context_sptr()); }
}
extern "C" {
bool w_fs_suppresses_symbol(function_suppression* s, const abigail::ir::elf_symbol* sym, unsigned k)
{ return s->suppresses_function_symbol(sym, static_cast<function_suppression::change_kind>(k), abigail::comparison::diff_context_sptr()); }
bool w_vs_suppresses_symbol(const variable_suppression* s, const abigail::ir::elf_symbol* sym, unsigned k)
{ return s->suppresses_variable_symbol(sym, static_cast<variable_suppression::change_kind>(k), abigail::comparison::diff_context_sptr()); }
}
extern "C" {
// a real type_suppression that only constrains the kind of type
type_suppression* w_ts_kind_new(bool consider, unsigned kind)
{
  type_suppression* s = new type_suppression("l", "", "");
  s->set_consider_type_kind(consider);
  s->set_type_kind(static_cast<type_suppression::type_kind>(kind));
  return s;
}
}
extern "C" {
// a real function_suppression naming the function "f" plus any subset of the four file / SONAME pattern properties
function_suppression* w_fs_file_new(const bool* cfg)
{
  function_suppression* s = new function_suppression;
  s->set_change_kind(function_suppression::ALL_CHANGE_KIND);
  s->set_name("f");
  if (cfg[0]) s->set_file_name_regex_str("F(");
  if (cfg[1]) s->set_file_name_not_regex_str("G(");
  if (cfg[2]) s->set_soname_regex_str("S(");
  if (cfg[3]) s->set_soname_not_regex_str("T(");
  return s;
}
bool w_fs_suppresses_ctx(const function_suppression* s, const abigail::ir::function_decl* fn, unsigned k, abigail::comparison::diff_context* fake_ctxt)
{
  return s->suppresses_function(fn, static_cast<function_suppression::change_kind>(k),
				abigail::comparison::diff_context_sptr(abigail::comparison::diff_context_sptr(), fake_ctxt));
}
}
