/* C24/C22: type-name matching of [suppress_type] sections - the real suppression_matches_type_name,
   type_suppression::priv::get_type_name_regex / get_type_name_not_regex (lazy compilation), regex::compile and
   regex::match (src/abg-suppression.cc, abg-suppression-priv.h, abg-regex.cc) on REAL type_suppression objects built by
   the real constructor/setters.  POSIX regcomp/regexec are contract stubs: compilation of each pattern succeeds or
   fails arbitrarily, a compiled pattern matches the type name or not arbitrarily; calling regexec without a compiled
   pattern is a violation.
   C23: parse_change_kind of function and variable suppressions maps exactly the documented keywords. */
#include "unit.h"
#include "verif.h"
typedef struct class_std____cxx11__basic_string vstr_t;

typedef struct class_std____cxx11__basic_string vstr_t2;
static _Bool fs_mode; static _Bool fs_compile_ok[10], fs_match[10][10]; static void *fs_compiled[10];
static int pat_id(u8 c);
static int subj_id(const u8 *s) { u8 c = s[0]; return c == 'f' ? 0 : c == 'g' ? 1 : c == 'h' ? 2 : c == '1' ? 3 : c == '2' ? 4 : c == 'a' ? 5 : c == 'b' ? 6 : c == 'i' ? 7 : c == 'l' ? 8 : 9; }
static struct class_std____cxx11__basic_string fn_qname, ret_tname, sym_name, sym_version, alias_name[2];
static _Bool compile_ok[2], does_match[2];
static void *compiled[2]; static u32 ncompiled;
u32 regcomp(void *preg, u8 *pattern, u32 flags)
{
  __CPROVER_assert(ncompiled < 12, "BOUND: more than twelve compilations"); __CPROVER_assume(ncompiled < 12);
  u32 k = ncompiled++;
  if (fs_mode) { int id = pat_id(pattern[0]); if (!fs_compile_ok[id]) return 1; fs_compiled[id] = preg; return 0; }
  /* the two patterns of the harness start with 'p' (name_regexp) and 'n' (name_not_regexp) */
  u32 which = pattern[0] == 'n';
  if (!compile_ok[which]) return 1;
  compiled[which] = preg;
  return 0;
}
u32 regexec(void *preg, u8 *str, u64 n, void *m, u32 flags)
{
  PROP(preg != 0, "C25-regexec-null: regexec is called without a compiled pattern");
  if (fs_mode) {
    int subj = subj_id(str);    /* the answer is a function of (pattern, subject CONTENT); subjects differ in their first byte */
    for (int i = 0; i < 10; i++) if (preg == fs_compiled[i] && fs_compiled[i]) return fs_match[i][subj] ? 0 : 1;
    PROP(preg == 0, "C25-regexec-uncompiled: regexec is called on a pattern that was not successfully compiled");
    return 1;
  }
  if (preg == compiled[0] && compiled[0]) return does_match[0] ? 0 : 1;
  if (preg == compiled[1] && compiled[1]) return does_match[1] ? 0 : 1;
  PROP(0, "C25-regexec-uncompiled: regexec is called on a pattern that was not successfully compiled");
  return 1;
}
void regfree(void *preg) { }

void h_type_name(void)
{
  vstr_t name_regex, name, not_regex, type_name;
  _Bool has_regex = nondet_bool(), has_name = nondet_bool(), has_not = nondet_bool(), same = nondet_bool();
  compile_ok[0] = nondet_bool(); compile_ok[1] = nondet_bool(); does_match[0] = nondet_bool(); does_match[1] = nondet_bool();
  ncompiled = 0; compiled[0] = compiled[1] = 0;
  vs_make(&name_regex, has_regex ? "p(" : "");
  vs_make(&name, has_name ? "T" : "");
  vs_make(&not_regex, "n(");
  vs_make(&type_name, same ? "T" : "U");
  void *s = w_ts_new(&name_regex, &name);
  if (has_not) w_ts_set_not_regex(s, &not_regex);
  u8 m = w_ts_matches_name(s, &type_name);
  u8 m2 = w_ts_matches_name(s, &type_name);       /* second evaluation: the lazily compiled patterns are cached */
  PROP(m == m2, "C24-name-match-stable: evaluating the same section twice gives the same answer");
  if (has_name)
    PROP((m != 0) == same, "C24-exact-name: a section with a type name matches exactly that name");
  else {
    if (has_regex && !compile_ok[0])
      PROP(!m, "C24-invalid-regex-matches-nothing: a name_regexp that is not a valid regular expression matches no type name");
    if (has_regex && compile_ok[0] && !does_match[0])
      PROP(!m, "C24-regex-mismatch: a type whose name the name_regexp does not match is not suppressed");
    if (has_not && compile_ok[1] && does_match[1])
      PROP(!m, "C24-not-regex-match: a type whose name the name_not_regexp matches is not suppressed");
    if (has_not && !compile_ok[1] && !has_regex)
      PROP(!m, "C24-invalid-not-regex-matches-nothing: a section whose only name constraint is an invalid name_not_regexp matches no type name");
    if ((!has_regex || (compile_ok[0] && does_match[0])) && (!has_not || (compile_ok[1] && !does_match[1])))
      PROP(m != 0, "C22-name-constraints-satisfied: when every name constraint is satisfied (or none is given) the name test passes");
  }
  COVER(has_regex && !compile_ok[0] && !has_name); COVER(m && has_regex && has_not); COVER(!m && has_name);
  WITNESS_END();
}

static int is_lit(vstr_t *s, const char *lit) { return vs_eq_lit(s, lit); }
void h_change_kind(void)
{
  vstr_t s; vs_nondet(&s, 24);
  u32 f = w_fn_parse_change_kind(&s), v = w_var_parse_change_kind(&s);
  u32 ef = is_lit(&s, "function-subtype-change") ? 1 : is_lit(&s, "added-function") ? 2 : is_lit(&s, "deleted-function") ? 4 : is_lit(&s, "all") ? 7 : 0;
  u32 ev = is_lit(&s, "variable-subtype-change") ? 1 : is_lit(&s, "added-variable") ? 2 : is_lit(&s, "deleted-variable") ? 4 : is_lit(&s, "all") ? 7 : 0;
  PROP(f == ef, "C23-function-change-kind: change_kind keywords of [suppress_function] map to their kinds and anything else to none");
  PROP(v == ev, "C23-variable-change-kind: change_kind keywords of [suppress_variable] map to their kinds and anything else to none");
  COVER(f == 1); COVER(f == 4); COVER(v == 2); COVER(f == 7 && v == 7); COVER(f == 0 && s.f1 == 23);
  WITNESS_END();
}

/* ---------------------------------------------------------------------------------------------------------------
   function_suppression::suppresses_function (real, complete) on a REAL function_suppression configured through the
   real setters (which properties are present is symbolic), against an opaque function whose qualified name, return
   type name, symbol (name, version, up to 2 aliases) are harness strings; regcomp/regexec as above (each pattern
   compiles or not, matches the queried string or not, arbitrarily but consistently per (pattern, string)). */
typedef struct { void *p, *c; } sp_t;
typedef struct { vstr_t *raw; } istr_t;
static istr_t fn_qname_i, ret_tname_i;
static _Bool has_sym, alias_from_name, sym_has_aliases; static u32 n_aliases;
static u64 fn_obj[4], rett_obj[4], sym_obj[4], alias_obj[2][4], type_obj[4], ver_obj[4];
static void *fn_vt[16], *rett_vt[16];
static void *qn_fn(struct class_abigail__ir__decl_base *d, u8 internal) { return &fn_qname_i; }
static void *qn_rett(struct class_abigail__ir__decl_base *d, u8 internal) { return &ret_tname_i; }
u8 _ZN7abigailneERKNSt7__cxx1112basic_stringIcSt11char_traitsIcESaIcEEERKNS_15interned_stringE(vstr_t *l, void *r_)
{ istr_t *r = r_; return r->raw ? !vs_eq(l, r->raw) : l->f1 != 0; }
static sp_t sym_sp;
void *_ZNK7abigail2ir13function_decl10get_symbolEv(void *fn) { sym_sp.p = has_sym ? (void *)sym_obj : 0; sym_sp.c = 0; return &sym_sp; }
void _ZNK7abigail2ir10elf_symbol19get_alias_from_nameERKNSt7__cxx1112basic_stringIcSt11char_traitsIcESaIcEEE(void *sret, void *s, vstr_t *n)
{ sp_t *r = sret; r->p = alias_from_name ? (void *)sym_obj : 0; r->c = 0; }
u8 _ZNK7abigail2ir10elf_symbol11has_aliasesEv(void *s) { return sym_has_aliases; }
void _ZNK7abigail2ir10elf_symbol14get_next_aliasEv(void *sret, void *s)
{
  sp_t *r = sret; r->c = 0;
  /* alias ring: main -> alias0 -> alias1 -> main */
  if (!sym_has_aliases) { r->p = 0; return; }
  if (s == (void *)sym_obj) r->p = n_aliases > 0 ? (void *)alias_obj[0] : (void *)sym_obj;
  else if (s == (void *)alias_obj[0]) r->p = n_aliases > 1 ? (void *)alias_obj[1] : (void *)sym_obj;
  else r->p = sym_obj;
}
u8 _ZNK7abigail2ir10elf_symbol14is_main_symbolEv(void *s) { return s == (void *)sym_obj; }
vstr_t *_ZNK7abigail2ir10elf_symbol8get_nameB5cxx11Ev(void *s)
{ return s == (void *)alias_obj[0] ? &alias_name[0] : s == (void *)alias_obj[1] ? &alias_name[1] : &sym_name; }
void *_ZNK7abigail2ir10elf_symbol11get_versionEv(void *s) { return ver_obj; }
vstr_t *_ZNK7abigail2ir10elf_symbol7version3strB5cxx11Ev(void *v) { return &sym_version; }
void _ZNK7abigail2ir13function_decl8get_typeEv(void *sret, void *fn) { sp_t *r = sret; r->p = type_obj; r->c = 0; }
static _Bool has_ret;
void _ZNK7abigail2ir13function_type15get_return_typeEv(void *sret, void *t) { sp_t *r = sret; r->p = has_ret ? (void *)type_obj : 0; r->c = 0; }
void _ZN7abigail2ir20get_type_declarationESt10shared_ptrINS0_9type_baseEE(void *sret, void *t) { sp_t *r = sret; r->p = rett_obj; r->c = 0; }

/* regexec oracle for this entry: pattern id by first character, answer arbitrary per (pattern, subject) with subject
   identified by its address among the harness strings */
static int pat_id(u8 c) { return c == 'p' ? 0 : c == 'n' ? 1 : c == 's' ? 2 : c == 't' ? 3 : c == 'v' ? 4 : c == 'F' ? 6 : c == 'G' ? 7 : c == 'S' ? 8 : c == 'T' ? 9 : 5; }
void h_fn_suppr(void)
{
  fs_mode = 1;
  _Bool cfg[10]; for (int i = 0; i < 10; i++) cfg[i] = nondet_bool();
  u32 ck = nondet_u32(), k = nondet_u32(); __CPROVER_assume(ck <= 7 && k <= 7 && k != 0);
  _Bool allow = nondet_bool();
  _Bool name_same = nondet_bool(), symname_same = nondet_bool(), ret_same = nondet_bool();
  u32 ver_kind = nondet_u32(); __CPROVER_assume(ver_kind < 3);   /* the function's symbol version: the section's, another one, none */
  _Bool ver_same = ver_kind == 0;
  has_sym = nondet_bool(); alias_from_name = nondet_bool(); sym_has_aliases = nondet_bool(); n_aliases = nondet_u32(); __CPROVER_assume(n_aliases <= 2);
  has_ret = nondet_bool();
  for (int i = 0; i < 6; i++) { fs_compile_ok[i] = nondet_bool(); fs_compiled[i] = 0; for (int j = 0; j < 10; j++) fs_match[i][j] = nondet_bool(); }
  vs_make(&fn_qname, name_same ? "f" : "g"); fn_qname_i.raw = &fn_qname;
  vs_make(&ret_tname, ret_same ? "int" : "long"); ret_tname_i.raw = &ret_tname;
  vs_make(&sym_name, symname_same ? "f" : "h"); vs_make(&sym_version, ver_kind == 0 ? "1" : ver_kind == 1 ? "2" : "");
  vs_make(&alias_name[0], nondet_bool() ? "f" : "a"); vs_make(&alias_name[1], nondet_bool() ? "f" : "b");
  fn_vt[0] = 0; fn_vt[3 + 9] = (void *)qn_fn; fn_obj[0] = (u64)&fn_vt[3];
  rett_vt[0] = 0; rett_vt[3 + 9] = (void *)qn_rett; rett_obj[0] = (u64)&rett_vt[3];
  ncompiled = 0;
  void *s = w_fs_new((void *)cfg, ck, allow);
  u8 r = w_fs_suppresses(s, (void *)fn_obj, k);

  PROP((ck & k) != 0 || !r, "C23-change-kind-limits: a suppression never hides a kind of change its change_kind does not name");
  PROP(!(cfg[0] && !name_same) || !r, "C22-name-mismatch: a function whose name differs from the section's name is not suppressed");
  if (cfg[1] && fs_compile_ok[0] && !fs_match[0][name_same ? 0 : 1]) PROP(!r, "C22-name-regexp-mismatch: a function whose name the name_regexp does not match is not suppressed");
  if (cfg[2] && fs_compile_ok[1] && fs_match[1][name_same ? 0 : 1]) PROP(!r, "C22-name-not-regexp-match: a function whose name the name_not_regexp matches is not suppressed");
  if (has_sym && cfg[3] && !symname_same) PROP(!r, "C22-symbol-name-mismatch: a function whose symbol name differs from symbol_name is not suppressed");
  if (has_sym && !cfg[3] && cfg[4] && fs_compile_ok[2] && !fs_match[2][symname_same ? 0 : 2]) PROP(!r, "C22-symbol-name-regexp-mismatch");
  if (has_sym && !cfg[3] && cfg[5] && fs_compile_ok[3] && fs_match[3][symname_same ? 0 : 2]) PROP(!r, "C22-symbol-name-not-regexp-match");
  if (has_sym && cfg[6] && !ver_same) PROP(!r, "C22-symbol-version-mismatch: a function whose symbol version differs from symbol_version (or whose symbol has no version) is not suppressed");
  COVER(has_sym && cfg[6] && ver_kind == 2);
  if (cfg[8] && !(has_ret && ret_same)) PROP(!r, "C22-return-type-mismatch: a function whose return type name differs from return_type_name is not suppressed");
  /* exact name, nothing else: hides exactly the named function */
  { int only_name = cfg[0]; for (int i = 1; i < 10; i++) if (cfg[i]) only_name = 0;
    if (only_name && !allow) PROP((r != 0) == (name_same && (ck & k) != 0), "C23-exact-name: a section giving only a name hides exactly the function with that name, for the kinds of change it names"); }
  COVER(r && cfg[0] && cfg[3]); COVER(!r && (ck & k)); COVER(r && allow && has_sym && sym_has_aliases && n_aliases == 2); COVER(cfg[2] && fs_compile_ok[1] && has_sym && allow && alias_from_name && sym_has_aliases && n_aliases > 0);
  WITNESS_END();
}

/* ---------------------------------------------------------------------------------------------------------------
   type_suppression::suppresses_diff, has_data_member_inserted_* part (real, with the real insertion_range::eval_boundary
   on real integer boundaries): a class diff with up to 2 inserted data members at SYMBOLIC offsets, possibly deleted
   members, symbolic old/new sizes, up to 2 integer ranges with symbolic bounds; every other question the function asks
   (type name/kind match, reach kind) is answered "yes" by stubs. */
typedef struct { void *next; vstr_t key; sp_t val; u64 hash; } umap_node;       /* _Hash_node<pair<const string, sptr>, true> */
typedef struct { void *buckets; u64 nbuckets; void *before_begin; u64 count; u64 pol[2]; void *single; } umap_obj;
static u64 d_obj[8], t_obj[8], cls_obj[2][8], mem_obj[2][4];
static u64 cls_size[2], mem_off[2];
static umap_obj deleted_m, inserted_m; static umap_node ins_nodes[2];
static void *cls_vt[20];
static u64 cls_size_of(struct class_abigail__ir__class_or_union *c) { return (void *)c == (void *)cls_obj[0] ? cls_size[0] : cls_size[1]; }
void *_ZN7abigail10comparison12is_type_diffEPKNS0_4diffE(void *d) { return d; }
void _ZNK7abigail10comparison4diff13first_subjectEv(void *sret, void *d) { sp_t *r = sret; r->p = t_obj; r->c = 0; }
void _ZNK7abigail10comparison4diff14second_subjectEv(void *sret, void *d) { sp_t *r = sret; r->p = t_obj; r->c = 0; }
void _ZN7abigail2ir7is_typeERKSt10shared_ptrINS0_17type_or_decl_baseEE(void *sret, void *x) { sp_t *r = sret; r->p = t_obj; r->c = 0; }
void _ZNK7abigail10comparison4diff7contextEv(void *sret, void *d) { sp_t *r = sret; r->p = 0; r->c = 0; }
u8 _ZNK7abigail5suppr16type_suppression15suppresses_typeERKSt10shared_ptrINS_2ir9type_baseEERKS2_INS_10comparison12diff_contextEE(void *s, void *t, void *c) { return 1; }
void _ZNK7abigail10comparison10class_diff16first_class_declEv(void *sret, void *d) { sp_t *r = sret; r->p = cls_obj[0]; r->c = 0; }
void _ZNK7abigail10comparison10class_diff17second_class_declEv(void *sret, void *d) { sp_t *r = sret; r->p = cls_obj[1]; r->c = 0; }
void *_ZNK7abigail10comparison19class_or_union_diff20deleted_data_membersB5cxx11Ev(void *d) { return &deleted_m; }
void *_ZNK7abigail10comparison19class_or_union_diff21inserted_data_membersB5cxx11Ev(void *d) { return &inserted_m; }
u64 _ZN7abigail2ir22get_data_member_offsetESt10shared_ptrINS0_9decl_baseEE(void *sp) { void *m = ((sp_t *)sp)->p; return m == (void *)mem_obj[0] ? mem_off[0] : mem_off[1]; }
static _Bool bnd_is_fn;
u8 *__dynamic_cast(u8 *p, u8 *src, u8 *dst, u64 hint)
{
  if (dst == (u8 *)&_ZTIN7abigail10comparison9enum_diffE) return 0;                                   /* the diff is a class diff */
  if (dst == (u8 *)&_ZTIN7abigail5suppr16type_suppression15insertion_range21fn_call_expr_boundaryE) return bnd_is_fn ? p : 0;   /* boundaries are integers, except in h_eval_boundary_fn */
  if (dst == (u8 *)&_ZTIN7abigail5suppr16type_suppression15insertion_range16integer_boundaryE) return bnd_is_fn ? 0 : p;
  return p;
}

void h_insertion_ranges(void)
{
  fs_mode = 0;
#ifndef NRANGES
#define NRANGES 1
#endif
  u32 nr = NRANGES, ni = nondet_u32(); __CPROVER_assume(ni <= 2);
  int rb[2], re[2];
  for (int i = 0; i < 2; i++) { rb[i] = (int)nondet_u32(); re[i] = (int)nondet_u32(); __CPROVER_assume(rb[i] >= 0 && rb[i] <= 1000 && re[i] >= 0 && re[i] <= 1000); }
  cls_size[0] = nondet_u64(); cls_size[1] = nondet_u64(); mem_off[0] = nondet_u64(); mem_off[1] = nondet_u64();
  __CPROVER_assume(cls_size[0] <= 4096 && cls_size[1] <= 4096 && mem_off[0] <= 4096 && mem_off[1] <= 4096);
  _Bool has_deleted = nondet_bool();
  cls_vt[13] = (void *)cls_size_of; cls_obj[0][0] = (u64)cls_vt; cls_obj[1][0] = (u64)cls_vt;
  memset(&deleted_m, 0, sizeof deleted_m); deleted_m.count = has_deleted ? 1 : 0;
  memset(&inserted_m, 0, sizeof inserted_m); inserted_m.count = ni;
  for (u32 i = 0; i < 2; i++) { vs_make(&ins_nodes[i].key, i ? "n" : "m"); ins_nodes[i].val.p = mem_obj[i]; ins_nodes[i].val.c = 0; ins_nodes[i].next = 0; }
  if (ni >= 1) inserted_m.before_begin = &ins_nodes[0];
  if (ni == 2) ins_nodes[0].next = &ins_nodes[1];
  void *s = w_ts_with_ranges(nr, rb, re);
  u8 r = _ZNK7abigail5suppr16type_suppression15suppresses_diffEPKNS_10comparison4diffE(s, (void *)d_obj);
  /* reference: every inserted member must lie in some range */
  int all_in = 1;
  for (u32 m = 0; m < 2; m++) if (m < ni) {
    int in = 0;
    for (u32 k = 0; k < 2; k++) if (k < nr && rb[k] <= re[k] && mem_off[m] >= (u64)rb[k] && mem_off[m] <= (u64)re[k]) in = 1;
    if (!in) all_in = 0;
  }
  PROP(!(r && has_deleted), "C24-ranges-never-hide-deletion: a has_data_member_inserted_* constraint never hides a change that removes a data member");
  PROP(!(r && cls_size[0] > cls_size[1]), "C24-ranges-never-hide-shrink: ... nor a change that shrinks the type");
  PROP(!(r && !all_in), "C24-ranges-every-insertion-inside: ... nor a change that inserts a member outside all the given ranges");
  PROP(r || has_deleted || cls_size[0] > cls_size[1] || !all_in, "C24-ranges-suppress-when-satisfied: insertions that all lie inside the ranges, without deletion or shrinking, are suppressed");
  COVER(r && ni == 2); COVER(!r && ni == 2 && !has_deleted && cls_size[0] <= cls_size[1]); COVER(r && ni == 0);
  WITNESS_END();
}

/* ---------------------------------------------------------------------------------------------------------------
   type_suppression::insertion_range::eval_boundary on a function-call boundary (offset_of(m) / offset_after(m) as
   the INI reader hands them over: ANY function name, 0, 1 or 2 arguments) against a class with 0..2 data members:
   C25 - no argument count makes it read an element the argument vector does not have; C24 - the boundary evaluates
   only for offset_of/offset_after with exactly one argument naming a laid-out member, to that member's offset
   (offset_after: the next member's offset, or offset + size for the last one). */
static u64 expr_obj[4];
static vstr_t fn_name_s, arg_s[2], dm_name[2]; static istr_t dm_name_i[2];
static struct { vstr_t *b, *e, *cap; } args_v;
static struct { sp_t *b, *e, *cap; } dms_v; static sp_t dm_elems[2];
static _Bool dm_laid_out[2], has_next; static u64 next_off, dm_type_size;
static void *type_vt[12], *dm_vt[4];   /* var_decl reaches its virtual base decl_base through vptr[-3] (offset 0 here) */
static u64 type_size_of(void *t) { return dm_type_size; }
static int dm_index(void *m) { return m == (void *)mem_obj[0] ? 0 : 1; }
vstr_t *_ZNK7abigail3ini18function_call_expr8get_nameB5cxx11Ev(void *e) { return &fn_name_s; }
void *_ZN7abigail3ini18function_call_expr13get_argumentsB5cxx11Ev(void *e) { return &args_v; }
void *_ZNK7abigail3ini18function_call_expr13get_argumentsB5cxx11Ev(void *e) { return &args_v; }
void *_ZNK7abigail2ir14class_or_union16get_data_membersEv(void *c) { return &dms_v; }
u8 _ZN7abigail2ir27get_data_member_is_laid_outERKNS0_8var_declE(void *m) { return dm_laid_out[dm_index(m)]; }
void *_ZNK7abigail2ir9decl_base8get_nameEv(void *d) { return &dm_name_i[dm_index(d)]; }
u64 _ZN7abigail2ir22get_data_member_offsetESt10shared_ptrINS0_8var_declEE(void *sp) { return mem_off[dm_index(((sp_t *)sp)->p)]; }
u8 _ZN7abigail2ir27get_next_data_member_offsetERKSt10shared_ptrINS0_14class_or_unionEERKS1_INS0_8var_declEERm(void *c, void *m, u64 *v)
{ if (has_next) *v = next_off; return has_next; }
void _ZNK7abigail2ir8var_decl8get_typeEv(void *sret, void *m) { sp_t *r = sret; r->p = t_obj; r->c = 0; }

void h_eval_boundary_fn(void)
{
  bnd_is_fn = 1;
  u32 fsel = nondet_u32(), na = nondet_u32(), nm = nondet_u32(); __CPROVER_assume(fsel < 3 && na <= 2 && nm <= 2);
  vs_make(&fn_name_s, fsel == 0 ? "offset_of" : fsel == 1 ? "offset_after" : "sizeof");
  _Bool arg_m = nondet_bool();
  vs_make(&arg_s[0], arg_m ? "m" : "z"); vs_make(&arg_s[1], "n");
  args_v.b = na ? &arg_s[0] : (vstr_t *)0; args_v.e = na ? &arg_s[0] + na : (vstr_t *)0; args_v.cap = args_v.e;     /* an empty vector owns no storage */
  for (int i = 0; i < 2; i++) {
    vs_make(&dm_name[i], i ? "n" : "m"); dm_name_i[i].raw = &dm_name[i];
    dm_vt[0] = 0; mem_obj[i][0] = (u64)&dm_vt[3];
    dm_elems[i].p = mem_obj[i]; dm_elems[i].c = 0; dm_laid_out[i] = nondet_bool();
    mem_off[i] = nondet_u64(); __CPROVER_assume(mem_off[i] <= 4096);
  }
  dms_v.b = nm ? &dm_elems[0] : (sp_t *)0; dms_v.e = nm ? &dm_elems[0] + nm : (sp_t *)0; dms_v.cap = dms_v.e;
  has_next = nondet_bool(); next_off = nondet_u64(); dm_type_size = nondet_u64(); __CPROVER_assume(next_off <= 8192 && dm_type_size <= 4096);
  type_vt[7] = (void *)type_size_of; t_obj[0] = (u64)type_vt;
  void *b = w_fn_boundary((void *)expr_obj);
  u64 v = 12345;
  u8 r = w_eval_boundary(b, (void *)cls_obj[0], &v);
  int found = fsel < 2 && na == 1 && arg_m && nm >= 1 && dm_laid_out[0];
  PROP((r != 0) == found, "C24-boundary-evaluates-iff: a function-call boundary evaluates exactly for offset_of/offset_after with one argument naming a laid-out data member");
  if (r && found)
    PROP(v == (fsel == 0 ? mem_off[0] : has_next ? next_off : mem_off[0] + dm_type_size),
         "C24-boundary-value: offset_of(m) is m's offset; offset_after(m) is the next member's offset, or m's offset plus its size");
  COVER(r && fsel == 1 && !has_next); COVER(!r && na == 0 && fsel == 0); COVER(!r && na == 2); COVER(r && fsel == 0);
  WITNESS_END();
}

/* ---------------------------------------------------------------------------------------------------------------
   variable_suppression::suppresses_variable (real, complete) on a REAL variable_suppression configured through the real
   setters (which of the 10 properties are present is symbolic), against an opaque variable whose qualified name, type
   name and symbol (name, version, or no symbol at all) are harness strings; regcomp/regexec as for h_fn_suppr. */
static u64 var_obj[4]; static void *var_vt[8];
void *_ZNK7abigail2ir8var_decl10get_symbolEv(void *v) { sym_sp.p = has_sym ? (void *)sym_obj : 0; sym_sp.c = 0; return &sym_sp; }
void h_var_suppr(void)
{
  fs_mode = 1;
  _Bool cfg[10]; for (int i = 0; i < 10; i++) cfg[i] = nondet_bool();
  u32 ck = nondet_u32(), k = nondet_u32(); __CPROVER_assume(ck <= 7 && k <= 7 && k != 0);
  _Bool name_same = nondet_bool(), symname_same = nondet_bool(), type_same = nondet_bool();
  u32 ver_kind = nondet_u32(); __CPROVER_assume(ver_kind < 3);
  has_sym = nondet_bool();
  for (int i = 0; i < 6; i++) { fs_compile_ok[i] = nondet_bool(); fs_compiled[i] = 0; for (int j = 0; j < 10; j++) fs_match[i][j] = nondet_bool(); }
  vs_make(&fn_qname, name_same ? "f" : "g"); fn_qname_i.raw = &fn_qname;
  vs_make(&ret_tname, type_same ? "int" : "long"); ret_tname_i.raw = &ret_tname;
  vs_make(&sym_name, symname_same ? "f" : "h"); vs_make(&sym_version, ver_kind == 0 ? "1" : ver_kind == 1 ? "2" : "");
  var_vt[0] = 0; var_vt[3 + 2] = (void *)qn_fn; var_obj[0] = (u64)&var_vt[3];
  rett_vt[0] = 0; rett_vt[3 + 9] = (void *)qn_rett; rett_obj[0] = (u64)&rett_vt[3];
  ncompiled = 0;
  void *s = w_vs_new((void *)cfg, ck);
  u8 r = w_vs_suppresses(s, (void *)var_obj, k);
  /* what the variable looks like to the section (a variable without symbol has an empty symbol name and version) */
  int sname_eq = has_sym && symname_same, sver_eq = has_sym && ver_kind == 0;
  int ns = name_same ? 0 : 1, ss = !has_sym ? 9 : symname_same ? 0 : 2, vs = (!has_sym || ver_kind == 2) ? 9 : ver_kind == 0 ? 3 : 4, ts = type_same ? 7 : 8;
  PROP((ck & k) != 0 || !r, "C23-var-change-kind-limits: a variable suppression never hides a kind of change its change_kind does not name");
  if (cfg[0] && !name_same) PROP(!r, "C22-var-name-mismatch: a variable whose name differs from the section's name is not suppressed");
  if (!cfg[0] && cfg[1] && fs_compile_ok[0] && !fs_match[0][ns]) PROP(!r, "C22-var-name-regexp-mismatch");
  if (!cfg[0] && cfg[2] && fs_compile_ok[1] && fs_match[1][ns]) PROP(!r, "C22-var-name-not-regexp-match");
  if (cfg[3] && !sname_eq) PROP(!r, "C22-var-symbol-name-mismatch: a variable whose symbol name differs from symbol_name (or that has no symbol) is not suppressed");
  if (!cfg[3] && cfg[4] && fs_compile_ok[2] && !fs_match[2][ss]) PROP(!r, "C22-var-symbol-name-regexp-mismatch");
  if (!cfg[3] && cfg[5] && fs_compile_ok[3] && fs_match[3][ss]) PROP(!r, "C22-var-symbol-name-not-regexp-match");
  if (cfg[6] && !sver_eq) PROP(!r, "C22-var-symbol-version-mismatch: a variable whose symbol version differs from symbol_version (or is absent) is not suppressed");
  if (!cfg[6] && cfg[7] && fs_compile_ok[4] && !fs_match[4][vs]) PROP(!r, "C22-var-symbol-version-regexp-mismatch");
  if (cfg[8] && !type_same) PROP(!r, "C22-var-type-name-mismatch: a variable whose type name differs from type_name is not suppressed");
  if (!cfg[8] && cfg[9] && fs_compile_ok[5] && !fs_match[5][ts]) PROP(!r, "C22-var-type-name-regexp-mismatch");
  /* with every given pattern compiling, the verdict is exactly the conjunction of the constraints the section gives */
  { int all_ok = 1; for (int i = 0; i < 6; i++) all_ok = all_ok && fs_compile_ok[i];
    if (all_ok) {
      int name_ok = cfg[0] ? name_same : ((!cfg[1] || fs_match[0][ns]) && (!cfg[2] || !fs_match[1][ns]));
      int sym_ok = cfg[3] ? sname_eq : ((!cfg[4] || fs_match[2][ss]) && (!cfg[5] || !fs_match[3][ss]));
      int ver_ok = cfg[6] ? sver_eq : (!cfg[7] || fs_match[4][vs]);
      int type_ok = cfg[8] ? type_same : (!cfg[9] || fs_match[5][ts]);
      PROP((r != 0) == ((ck & k) != 0 && name_ok && sym_ok && ver_ok && type_ok),
           "C23-var-exactly-what-it-names: a [suppress_variable] section hides a variable change exactly when the change kind and every given name, symbol, version and type constraint are satisfied");
    } }
  COVER(r && cfg[0] && cfg[3] && cfg[6] && cfg[8]); COVER(!r && (ck & k)); COVER(r && !has_sym); COVER(r && cfg[2] && cfg[5]);
  WITNESS_END();
}

/* ---------------------------------------------------------------------------------------------------------------
   Symbol-only suppression (binaries without debug info, C19/C23): function_suppression::suppresses_function_symbol and
   variable_suppression::suppresses_variable_symbol (real) on real sections with every subset of their properties,
   against an ELF symbol of arbitrary kind, name and version, asked about an addition or a deletion. */
static _Bool sym_is_fn;
u8 _ZNK7abigail2ir10elf_symbol11is_functionEv(void *s) { return sym_is_fn; }
u8 _ZNK7abigail2ir10elf_symbol11is_variableEv(void *s) { return !sym_is_fn; }
#ifndef SYMKIND
#define SYMKIND 0     /* 0: [suppress_function] against a symbol, 1: [suppress_variable] against a symbol */
#endif
void h_sym_suppr(void)
{
  fs_mode = 1;
  _Bool cfg[10]; for (int i = 0; i < 10; i++) cfg[i] = nondet_bool();
  u32 ck = nondet_u32(); __CPROVER_assume(ck <= 7);
  u32 k = nondet_bool() ? 2 : 4;                       /* ADDED_*_CHANGE_KIND / DELETED_*_CHANGE_KIND: what the callers ask */
  _Bool symname_same = nondet_bool(), null_sym = nondet_bool();
  u32 ver_kind = nondet_u32(); __CPROVER_assume(ver_kind < 3);
  sym_is_fn = nondet_bool();
  for (int i = 0; i < 6; i++) { fs_compile_ok[i] = nondet_bool(); fs_compiled[i] = 0; for (int j = 0; j < 10; j++) fs_match[i][j] = nondet_bool(); }
  vs_make(&sym_name, symname_same ? "f" : "h"); vs_make(&sym_version, ver_kind == 0 ? "1" : ver_kind == 1 ? "2" : "");
  ncompiled = 0;
  void *s = SYMKIND ? w_vs_new((void *)cfg, ck) : w_fs_new((void *)cfg, ck, 0);
  void *sym = null_sym ? 0 : (void *)sym_obj;
  u8 r = SYMKIND ? w_vs_suppresses_symbol(s, sym, k) : w_fs_suppresses_symbol(s, sym, k);
  int ss = symname_same ? 0 : 2, vs = ver_kind == 2 ? 9 : ver_kind == 0 ? 3 : 4;
  int right_kind = SYMKIND ? !sym_is_fn : sym_is_fn;
  PROP(!null_sym || !r, "C23-sym-null: no symbol, nothing hidden");
  PROP((ck & k) != 0 || !r, "C23-sym-change-kind-limits: a section never hides a kind of change its change_kind does not name");
  PROP(right_kind || !r, "C23-sym-kind: a function section never hides a variable symbol and vice versa");
  /* the constraints on the symbol: its name (symbol_name, or - for variables - name; else symbol_name_regexp) and version */
  int by_name = SYMKIND && cfg[0];
  int has_name_c = by_name || cfg[3] || cfg[4], has_ver_c = cfg[6] || cfg[7];
  PROP(has_name_c || has_ver_c || !r, "C22-sym-needs-a-symbol-property: a section without any symbol name or version property hides no symbol");
  if ((by_name || cfg[3]) && !symname_same) PROP(!r, "C22-sym-name-mismatch: a symbol whose name differs from the given name is not hidden");
  if (!by_name && !cfg[3] && cfg[4] && fs_compile_ok[2] && !fs_match[2][ss]) PROP(!r, "C22-sym-name-regexp-mismatch");
  if (cfg[6] && ver_kind != 0) PROP(!r, "C22-sym-version-mismatch: a symbol whose version differs from symbol_version (or is absent) is not hidden");
  if (!cfg[6] && cfg[7] && fs_compile_ok[4] && !fs_match[4][vs]) PROP(!r, "C22-sym-version-regexp-mismatch");
  if (fs_compile_ok[2] && fs_compile_ok[4]) {
    int name_ok = (by_name || cfg[3]) ? symname_same : (!cfg[4] || fs_match[2][ss]);
    int ver_ok = cfg[6] ? ver_kind == 0 : (!cfg[7] || fs_match[4][vs]);
    PROP((r != 0) == (!null_sym && (ck & k) != 0 && right_kind && (has_name_c || has_ver_c) && name_ok && ver_ok),
         "C23-sym-exactly-what-it-names: a section hides an added/removed symbol exactly when the kind of change and symbol fit and every given symbol name / version constraint is satisfied");
  }
  COVER(r && cfg[3] && cfg[6]); COVER(r && !cfg[3] && cfg[4]); COVER(!r && !null_sym && right_kind && (ck & k)); COVER(r && !has_name_c);
  WITNESS_END();
}

/* ---------------------------------------------------------------------------------------------------------------
   type_kind constraint of [suppress_type] (C24): the real suppression_matches_type_no_name on a real section that gives
   only a type_kind, against a type of each actual kind (class, struct, union, enum, array, typedef, built-in). */
static u32 actual_kind;      /* 0 class (not struct), 1 struct, 2 union, 3 enum, 4 array, 5 typedef, 6 built-in */
static _Bool type_has_loc;
static void is_kind(void *sret, int yes) { sp_t *r = sret; r->p = yes ? (void *)t_obj : 0; r->c = 0; }
void _ZN7abigail2ir13is_class_typeERKSt10shared_ptrINS0_17type_or_decl_baseEE(void *sret, void *t) { is_kind(sret, actual_kind <= 1); }
void _ZN7abigail2ir13is_union_typeERKSt10shared_ptrINS0_17type_or_decl_baseEE(void *sret, void *t) { is_kind(sret, actual_kind == 2); }
void _ZN7abigail2ir12is_enum_typeERKSt10shared_ptrINS0_17type_or_decl_baseEE(void *sret, void *t) { is_kind(sret, actual_kind == 3); }
void _ZN7abigail2ir13is_array_typeERKSt10shared_ptrINS0_17type_or_decl_baseEE(void *sret, void *t) { is_kind(sret, actual_kind == 4); }
void _ZN7abigail2ir10is_typedefESt10shared_ptrINS0_17type_or_decl_baseEE(void *sret, void *t) { is_kind(sret, actual_kind == 5); }
void _ZN7abigail2ir12is_type_declERKSt10shared_ptrINS0_17type_or_decl_baseEE(void *sret, void *t) { is_kind(sret, actual_kind == 6); }
u8 _ZNK7abigail2ir10class_decl9is_structEv(void *c) { return actual_kind == 1; }
void _ZN7abigail2ir12get_locationERKSt10shared_ptrINS0_9type_baseEE(void *sret, void *t) { memset(sret, 0, 24); *(u32 *)sret = type_has_loc ? 5 : 0; }
void h_type_kind(void)
{
  fs_mode = 0;
  _Bool consider = nondet_bool(); u32 tk = nondet_u32(); actual_kind = nondet_u32(); type_has_loc = nondet_bool();
  __CPROVER_assume(tk <= 7 && actual_kind <= 6);
  static void *tk_vt[4];                 /* type_base -> its virtual base type_or_decl_base goes through vptr[-3] (offset 0 here) */
  tk_vt[0] = 0; t_obj[0] = (u64)&tk_vt[3];
  void *s = w_ts_kind_new(consider, tk);
  sp_t tsp = { t_obj, 0 };
  u8 r = _ZN7abigail5supprL32suppression_matches_type_no_nameERKNS0_16type_suppressionERKSt10shared_ptrINS_2ir9type_baseEE(s, &tsp);
  /* type_kind values: 0 unknown (treated like class), 1 class, 2 struct, 3 union, 4 enum, 5 array, 6 typedef, 7 builtin */
  int fits = tk <= 1 ? actual_kind <= 1 : tk == 2 ? actual_kind == 1 : actual_kind == tk - 1;
  PROP(!(r && consider && !fits), "C24-type-kind-never-over-suppresses: a section with a type_kind never matches a type of another kind");
  PROP((r != 0) == (!consider || fits), "C24-type-kind-exact: with only a type_kind given, the section matches exactly the types of that kind (class also covers struct)");
  COVER(r && consider && tk == 2); COVER(!r && tk == 1 && actual_kind == 2); COVER(r && !consider); COVER(r && tk == 7);
  WITNESS_END();
}

/* ---------------------------------------------------------------------------------------------------------------
   file_name_regexp / file_name_not_regexp / soname_regexp / soname_not_regexp (C22: a section whose file or SONAME
   patterns match neither binary changes nothing): the real suppresses_function with a diff context, on a real section that
   names the function exactly and gives any subset of the four pattern properties, for two binaries with arbitrary
   regex outcomes per (pattern, path) and (pattern, soname). */
static u64 ctxt_obj2[4], cdiff_obj[4], corpus_obj[2][4];
static sp_t cdiff_sp;
static vstr_t bin_path[2], bin_soname[2];
void *_ZNK7abigail10comparison12diff_context15get_corpus_diffEv(void *c) { cdiff_sp.p = cdiff_obj; cdiff_sp.c = 0; return &cdiff_sp; }
void _ZNK7abigail10comparison11corpus_diff12first_corpusEv(void *sret, void *d) { sp_t *r = sret; r->p = corpus_obj[0]; r->c = 0; }
void _ZNK7abigail10comparison11corpus_diff13second_corpusEv(void *sret, void *d) { sp_t *r = sret; r->p = corpus_obj[1]; r->c = 0; }
vstr_t *_ZNK7abigail2ir6corpus8get_pathB5cxx11Ev(void *c) { return &bin_path[c == (void *)corpus_obj[1]]; }
vstr_t *_ZN7abigail2ir6corpus10get_sonameB5cxx11Ev(void *c) { return &bin_soname[c == (void *)corpus_obj[1]]; }
static int pat_ok(int cfg, int id) { return cfg && fs_compile_ok[id]; }
static int both_match(int hasP, int idP, int hasN, int idN, int subj)
{ /* suppression_base::priv::matches_binary_name / matches_soname */
  if (pat_ok(hasP, idP) && !fs_match[idP][subj]) return 0;
  if (pat_ok(hasN, idN) && fs_match[idN][subj]) return 0;
  return pat_ok(hasP, idP) || pat_ok(hasN, idN);
}
void h_file_constraints(void)
{
  fs_mode = 1;
  _Bool cfg[4]; for (int i = 0; i < 4; i++) cfg[i] = nondet_bool();
  for (int i = 0; i < 10; i++) { fs_compile_ok[i] = nondet_bool(); fs_compiled[i] = 0; for (int j = 0; j < 10; j++) fs_match[i][j] = nondet_bool(); }
  has_sym = 0;
  vs_make(&fn_qname, "f"); fn_qname_i.raw = &fn_qname;
  vs_make(&bin_path[0], "a"); vs_make(&bin_path[1], "b"); vs_make(&bin_soname[0], "1"); vs_make(&bin_soname[1], "2");
  fn_vt[0] = 0; fn_vt[3 + 9] = (void *)qn_fn; fn_obj[0] = (u64)&fn_vt[3];
  ncompiled = 0;
  void *s = w_fs_file_new((void *)cfg);
  u8 r = w_fs_suppresses_ctx(s, (void *)fn_obj, 1, (void *)ctxt_obj2);
  /* subjects: paths "a","b" are 5,6; sonames "1","2" are 3,4 (subj_id) */
  int file_prop = cfg[0] || cfg[1], soname_prop = cfg[2] || cfg[3];
  int file_ok = !file_prop || both_match(cfg[0], 6, cfg[1], 7, 5) || both_match(cfg[0], 6, cfg[1], 7, 6);
  int soname_ok = !soname_prop || both_match(cfg[2], 8, cfg[3], 9, 3) || both_match(cfg[2], 8, cfg[3], 9, 4);
  if (cfg[0] && fs_compile_ok[6] && !fs_match[6][5] && !fs_match[6][6])
    PROP(!r, "C22-file-name-regexp-matches-neither: a section whose file_name_regexp matches neither binary suppresses nothing");
  if (cfg[1] && fs_compile_ok[7] && fs_match[7][5] && fs_match[7][6])
    PROP(!r, "C22-file-name-not-regexp-matches-both: a section whose file_name_not_regexp matches both binaries suppresses nothing");
  if (cfg[2] && fs_compile_ok[8] && !fs_match[8][3] && !fs_match[8][4])
    PROP(!r, "C22-soname-regexp-matches-neither: a section whose soname_regexp matches neither SONAME suppresses nothing");
  if (cfg[3] && fs_compile_ok[9] && fs_match[9][3] && fs_match[9][4])
    PROP(!r, "C22-soname-not-regexp-matches-both: a section whose soname_not_regexp matches both SONAMEs suppresses nothing");
  PROP((r != 0) == (file_ok && soname_ok), "C23-file-constraints-exact: a section naming the function hides it exactly when its file and SONAME constraints accept one of the two binaries");
  COVER(r && cfg[0] && cfg[2]); COVER(!r && cfg[1]); COVER(r && !file_prop && !soname_prop); COVER(!r && cfg[0] && !fs_compile_ok[6]);
  WITNESS_END();
}
