/* tools/abidiff.cc:main (real, complete, with the real handle_error, prepare_di_root_paths,
   maybe_check_suppression_files and the abidiff_status operators) against CONTRACT STUBS of everything it calls:
   the command line parser yields an arbitrary option set, guess_file_type any file type for each operand, every
   loader either yields an object or fails (ghost: load_failed), the diff verdict predicates are arbitrary.
   C09: a failed load is never reported as "no change"      C08: documented status bits, 8=>4, 2=>1, 4 <=> net change
   C01: loads fine + no net/incompatible change => exit 0 for every option set */
#include "unit.h"
#include "verif.h"
typedef struct class_std____cxx11__basic_string vstr_t;
typedef struct { void *p, *c; } sp_t;      /* std::shared_ptr: {pointer, control block} */

#ifdef VERIF_NATIVE
extern int verif_quiet;
static int verif_quiet_dbg(void) { return verif_quiet; }
#endif
/* ---- ghost state ---- */
static _Bool load_attempted, load_failed, parse_ok, usage_flags[3], show_symtabs, fail_no_di, files_given, suppressed;
static _Bool net_changes, incompatible, has_changes_, version_mismatch;
static u32 ftype[2];
static u32 n_guess;
static u32 elf_status[2];
static _Bool reported, diffed;

static u64 obj_pool[12][8];
static u32 obj_n;
static void *fresh(void) { __CPROVER_assert(obj_n < 12, "BOUND: object pool"); __CPROVER_assume(obj_n < 12); return obj_pool[obj_n++]; }

/* ---- synthetic vtables for the diff objects main() calls virtually ---- */
static u8 tu_has_changes(struct class_abigail__comparison__translation_unit_diff *d) { return has_changes_; }
static void tu_report(struct class_abigail__comparison__translation_unit_diff *d, struct class_std__basic_ostream *o, vstr_t *indent) { reported = 1; }
static void cd_report(struct class_abigail__comparison__corpus_diff *d, struct class_std__basic_ostream *o, vstr_t *indent) { reported = 1; }
static void *tu_vtbl[12], *cd_vtbl[6];

/* ---- contract stubs ---- */
u8 _Z18parse_command_lineiPPcR7options(u32 argc, u8 **argv, void *opts)
{
  _Bool v[20], p[7], m[9];
  for (int i = 0; i < 20; i++) v[i] = nondet_bool();
  for (int i = 0; i < 7; i++) p[i] = nondet_bool();
  for (int i = 0; i < 9; i++) m[i] = nondet_bool();
  w_opts_set_verdict(opts, (void *)v); w_opts_set_presentation(opts, (void *)p); w_opts_set_misc(opts, (void *)m);
  usage_flags[0] = m[0]; usage_flags[1] = m[1]; usage_flags[2] = m[2]; show_symtabs = m[3]; fail_no_di = m[4];
  files_given = nondet_bool();
  if (files_given) { vs_make(w_opts_file(opts, 0), "a"); vs_make(w_opts_file(opts, 1), "b"); }
  else if (nondet_bool()) vs_make(w_opts_file(opts, 0), "a");
  parse_ok = nondet_bool();
  return parse_ok;
}
u32 _ZN7abigail11tools_utils15guess_file_typeERKNSt7__cxx1112basic_stringIcSt11char_traitsIcESaIcEEE(vstr_t *path)
{ __CPROVER_assert(n_guess < 2, "BOUND: guess_file_type called more than twice"); __CPROVER_assume(n_guess < 2); return ftype[n_guess++]; }
void _ZN7abigail5suppr18file_is_suppressedERKNSt7__cxx1112basic_stringIcSt11char_traitsIcESaIcEEERKSt6vectorISt10shared_ptrINS0_16suppression_baseEESaISC_EE(void *sret, vstr_t *p, void *s)
{ sp_t *r_ = sret; _Bool r = nondet_bool(); if (r) suppressed = 1; r_->p = r ? (void *)obj_pool[11] : 0; r_->c = 0; }
static void load_result(void *sret)
{
  sp_t *r = sret; _Bool ok = nondet_bool();
  load_attempted = 1; if (!ok) load_failed = 1;
  r->p = ok ? fresh() : 0; r->c = 0;
}
void _ZN7abigail10xml_reader31read_translation_unit_from_fileERKNSt7__cxx1112basic_stringIcSt11char_traitsIcESaIcEEEPNS_2ir11environmentE(void *sret, vstr_t *p, void *env) { load_result(sret); }
void _ZN7abigail10xml_reader22read_corpus_from_inputERNS0_12read_contextE(void *sret, void *ctxt) { load_result(sret); }
void _ZN7abigail10xml_reader28read_corpus_group_from_inputERNS0_12read_contextE(void *sret, void *ctxt) { load_result(sret); }
/* read_corpus_from_elf (src/abg-dwarf-reader.cc): a null corpus is returned exactly when STATUS_OK is not set */
static u32 n_elf;
void _ZN7abigail12dwarf_reader20read_corpus_from_elfERNS0_12read_contextERNS_10elf_reader6statusE(void *sret, void *ctxt, u32 *status)
{
  sp_t *r = sret; u32 st = nondet_u32();
  __CPROVER_assume(st <= 15);
  /* STATUS_NO_SYMBOLS_FOUND (8), or ALT_DEBUG_INFO_NOT_FOUND (4) without DEBUG_INFO_NOT_FOUND (2): no corpus, no OK bit */
  _Bool fails = (st & 8) || ((st & 4) && !(st & 2));
  __CPROVER_assume(fails == !(st & 1));
  *status = st;
  load_attempted = 1; if (fails) load_failed = 1;
  r->p = fails ? 0 : fresh(); r->c = 0;
  if (n_elf < 2) elf_status[n_elf] = st; n_elf++;
}
void _ZN7abigail12dwarf_reader19create_read_contextERKNSt7__cxx1112basic_stringIcSt11char_traitsIcESaIcEEERKSt6vectorIPPcSaISB_EEPNS_2ir11environmentEbb(void *sret, vstr_t *p, void *v, void *env, u8 a, u8 b)
{ sp_t *r = sret; r->p = fresh(); r->c = 0; }
void _ZN7abigail10xml_reader30create_native_xml_read_contextERKNSt7__cxx1112basic_stringIcSt11char_traitsIcESaIcEEEPNS_2ir11environmentE(void *sret, vstr_t *p, void *env)
{ sp_t *r = sret; r->p = fresh(); r->c = 0; }
static void mkdiff(void *sret, void **vt) { sp_t *r = sret; void **o = fresh(); o[0] = vt; r->p = o; r->c = 0; diffed = 1; }
void _ZN7abigail10comparison12compute_diffESt10shared_ptrINS_2ir16translation_unitEES4_S1_INS0_12diff_contextEE(void *sret, void *a, void *b, void *c) { mkdiff(sret, tu_vtbl); }
void _ZN7abigail10comparison12compute_diffESt10shared_ptrINS_2ir6corpusEES4_S1_INS0_12diff_contextEE(void *sret, void *a, void *b, void *c) { mkdiff(sret, cd_vtbl); }
void _ZN7abigail10comparison12compute_diffERKSt10shared_ptrINS_2ir12corpus_groupEES6_S1_INS0_12diff_contextEE(void *sret, void *a, void *b, void *c) { mkdiff(sret, cd_vtbl); }
u8 _ZNK7abigail10comparison11corpus_diff11has_changesEv(void *d) { return has_changes_; }
u8 _ZNK7abigail10comparison11corpus_diff15has_net_changesEv(void *d) { return net_changes; }
u8 _ZNK7abigail10comparison11corpus_diff24has_incompatible_changesEv(void *d) { return incompatible; }
/* corpus::get_format_major_version_number(): "2" for both, or different strings */
static u32 n_ver;
vstr_t *_ZNK7abigail2ir6corpus31get_format_major_version_numberB5cxx11Ev(void *c)
{
  vstr_t *s = malloc(sizeof *s); __CPROVER_assume(s != 0);
  vs_make(s, (version_mismatch && (n_ver++ & 1)) ? "1" : "2");
  return s;
}

void h_main(void)
{
  obj_n = 0; n_guess = 0; n_elf = 0; n_ver = 0;
  load_attempted = load_failed = suppressed = reported = diffed = 0;
  tu_vtbl[6] = (void *)tu_has_changes; tu_vtbl[8] = (void *)tu_report; cd_vtbl[2] = (void *)cd_report;
  ftype[0] = nondet_u32(); ftype[1] = nondet_u32();
  __CPROVER_assume(ftype[0] <= 10 && ftype[1] <= 10);      /* enum file_type */
  net_changes = nondet_bool(); incompatible = nondet_bool(); has_changes_ = nondet_bool(); version_mismatch = nondet_bool();
  /* proved separately over arbitrary statistics (c08_status: C08-incompatible-implies-change; cstats for leaf mode) */
  __CPROVER_assume(!incompatible || net_changes);
  static u8 prog[] = "abidiff";
  u8 *argv[2] = { prog, 0 };
  u32 rc = _Z12abidiff_mainiPPc(1, argv);

#ifdef VERIF_NATIVE
  if (!verif_quiet_dbg()) fprintf(stderr, "DBG rc=%u ftype=%u,%u load_failed=%d parse_ok=%d usage=%d%d%d symtabs=%d fail_no_di=%d files=%d suppressed=%d diffed=%d elf_status=%u,%u n_elf=%u vermis=%d\n", rc, ftype[0], ftype[1], load_failed, parse_ok, usage_flags[0], usage_flags[1], usage_flags[2], show_symtabs, fail_no_di, files_given, suppressed, diffed, elf_status[0], elf_status[1], n_elf, version_mismatch);
#endif
  PROP((rc & ~15u) == 0, "C08-main-documented-bits: abidiff's exit status uses only the four documented bits");
  PROP(!(rc & 8) || (rc & 4), "C08-main-incompatible-implies-change: the incompatible bit never appears without the change bit");
  PROP(!(rc & 2) || (rc & 1), "C08-main-usage-implies-error: the usage-error bit never appears without the error bit");
  PROP(!load_failed || (rc & 1), "C09-failed-load-sets-error: when an input could not be loaded the error bit is set");
  PROP(!load_failed || rc != 0, "C09-failed-load-nonzero: a failed load never exits 0");
  if (!parse_ok || usage_flags[0] || usage_flags[2])
    PROP(rc == 3, "C08-usage-error: unrecognized option, missing operand and --help exit with usage-error|error");
  if (diffed && !(rc & 1)) {
    /* a comparison was made and no error was reported */
    if (ftype[0] != 1)   /* corpus / corpus group comparison (translation units have no net-change predicate) */
      PROP(((rc & 4) != 0) == net_changes && ((rc & 8) != 0) == incompatible,
           "C08-main-bits-from-verdict: the change bit is has_net_changes() and the incompatible bit is has_incompatible_changes()");
    PROP(net_changes || incompatible || rc == 0, "C01-no-change-exits-zero: with both inputs loaded and neither a net nor an incompatible change abidiff exits 0, whatever the options");
  }
  PROP(!reported || has_changes_, "C01-nothing-reported-without-changes: a report is emitted only when the diff has changes");
  COVER(load_failed && rc == 1); COVER(diffed && rc == 4); COVER(diffed && rc == 12); COVER(diffed && rc == 0);
  COVER(load_failed && ftype[0] == 4); COVER(load_failed && ftype[1] == 5); COVER(rc == 3); COVER(suppressed && rc == 0);
  WITNESS_END();
}
