// tools/abidiff.cc (copy generated on every run from the current tree, file-local functions given external
// linkage so that contract stubs can replace them; main renamed abidiff_main) + accessors for the C harness.
#include "abidiff_ns.cc"
#include <new>
extern "C" {
unsigned long w_opts_size() { return sizeof(options); }
options* w_opts_new(void* mem) { return new (mem) options; }
void w_opts_set_verdict(options* o, const bool* b)
{
  o->leaf_changes_only = b[0]; o->show_stats_only = b[1]; o->show_deleted_fns = b[2]; o->show_changed_fns = b[3];
  o->show_added_fns = b[4]; o->show_all_fns = b[5]; o->show_deleted_vars = b[6]; o->show_changed_vars = b[7];
  o->show_added_vars = b[8]; o->show_all_vars = b[9]; o->ignore_soname = b[10]; o->show_redundant_changes = b[11];
  o->show_symbols_not_referenced_by_debug_info = b[12]; o->show_added_syms = b[13]; o->show_all_types = b[14];
  o->show_impacted_interfaces = b[15]; o->show_harmless_changes = b[16]; o->show_harmful_changes = b[17];
  o->no_default_supprs = b[18]; o->dump_diff_tree = b[19];
}
void w_opts_set_presentation(options* o, const bool* b)
{
  o->show_locs = b[0]; o->show_hexadecimal_values = b[1]; o->show_offsets_sizes_in_bits = b[2];
  o->show_relative_offset_changes = b[3]; o->show_linkage_names = b[4]; o->no_corpus = b[5]; o->no_arch = b[6];
}
void w_opts_set_misc(options* o, const bool* b)
{
  o->display_usage = b[0]; o->display_version = b[1]; o->missing_operand = b[2]; o->show_symtabs = b[3];
  o->fail_no_debug_info = b[4]; o->show_stats = b[5]; o->do_log = b[6]; o->drop_private_types = b[7];
  o->linux_kernel_mode = b[8];
}
std::string* w_opts_file(options* o, int i) { return i == 0 ? &o->file1 : i == 1 ? &o->file2 : &o->wrong_option; }
}
