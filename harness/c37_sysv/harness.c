/* C37 / C34 - lookup_symbol_from_sysv_hash_tab (src/abg-dwarf-reader.cc, real) over a symbolic dynamic symbol table and
   SysV hash section.  Well-formed tables (any bucket count smaller or larger than the symbol count, both chain orders):
   the lookup finds exactly the symbols carrying the name (C37).  Arbitrary section bytes: no out-of-bounds read, no
   abort, no endless chain walk (C34). */
#include "unit.h"
#include "verif.h"
typedef struct class_std____cxx11__basic_string vstr_t;
typedef struct { void *p, *c; } sp_t;
#define LOOKUP _ZN7abigail12dwarf_readerL32lookup_symbol_from_sysv_hash_tabEPKNS_2ir11environmentEP3ElfRKNSt7__cxx1112basic_stringIcSt11char_traitsIcESaIcEEEmmbRSt6vectorISt10shared_ptrINS1_10elf_symbolEESaISI_EE
#ifndef NS
#define NS 4
#endif
#define HTW 10                                  /* words in the hash section buffer: 2 + 3 buckets + 5 chains */
static const char *const names[3] = { "", "f", "g" };
static u8 namesel[NS];                         /* name of each symbol; symbol 0 is the null symbol */
static u32 ht[HTW]; static u64 ht_size;        /* the hash section: contents and d_size in bytes */
static u32 hashv[3];                           /* elf_hash of each name */
static u64 scn_symtab[1], scn_hash[1], elf_dummy[1], env_dummy[1];
static struct { void *d_buf; u32 d_type, d_version; u64 d_size; u64 d_off, d_align; } data_symtab, data_hash;
static u32 getsym_calls;

void *elf_getscn(void *elf, u64 idx) { return idx == 1 ? (void *)scn_symtab : idx == 2 ? (void *)scn_hash : 0; }
void *elf_getdata(void *scn, void *prev) { return scn == (void *)scn_hash ? (void *)&data_hash : (void *)&data_symtab; }
void *gelf_getshdr(void *scn, void *dst_) { struct struct_Elf64_Shdr *dst = dst_; memset(dst, 0, sizeof *dst); dst->f6 = 7; return dst; }
u64 elf_hash(u8 *s) { return s[0] == 0 ? hashv[0] : s[0] == 'f' ? hashv[1] : hashv[2]; }
void *gelf_getsym(void *data, u32 i, void *dst_)
{
  struct struct_Elf64_Sym *dst = dst_;
  getsym_calls++;
  __CPROVER_assert(getsym_calls <= HTW, "C34-sysv-chain-walk-terminates: the chain walk visits a bounded number of entries (a cyclic chain must not hang the lookup)");
  __CPROVER_assume(getsym_calls <= HTW);
  if (i >= NS) return 0;                       /* libelf: index out of range */
  memset(dst, 0, sizeof *dst);
  dst->f0 = i; dst->f1 = 0x12; dst->f3 = 1; dst->f5 = 8;
  return dst;
}
u8 *elf_strptr(void *elf, u64 link, u64 off) { return off < NS ? (u8 *)names[namesel[off]] : 0; }
u8 _ZN7abigail11elf_helpers22get_version_for_symbolEP3ElfmbRNS_2ir10elf_symbol7versionE(void *elf, u64 i, u8 def, void *ver) { return 0; }
void _ZN7abigail2ir10elf_symbol7versionC1Ev(void *v) { }
void _ZN7abigail2ir10elf_symbol7versionD1Ev(void *v) { }
#define NCRE HTW   /* a corrupted (cyclic) chain may return a symbol more than once: at most one per chain word */
static u64 symobj[NCRE][2]; static u32 created[NCRE], ncreated, npushed; static _Bool pushed_ok = 1;
void _ZN7abigail2ir10elf_symbol6createEPKNS0_11environmentEmmRKNSt7__cxx1112basic_stringIcSt11char_traitsIcESaIcEEENS1_4typeENS1_7bindingEbbRKNS1_7versionENS1_10visibilityEbmb(
    void *sret, void *e, u64 i, u64 s, vstr_t *n, u32 t, u32 b, u8 d, u8 c, void *ve, u32 vi, u8 ks, u64 crc, u8 supp)
{
  __CPROVER_assert(ncreated < NCRE, "BOUND: more symbols created than chain words"); __CPROVER_assume(ncreated < NCRE);
  created[ncreated] = (u32)i;
  sp_t *r = sret; r->p = symobj[ncreated++]; r->c = 0;
}
void _ZNSt6vectorISt10shared_ptrIN7abigail2ir10elf_symbolEESaIS4_EE9push_backERKS4_(void *v, void *x_)
{ sp_t *x = x_; if (npushed >= ncreated || x->p != (void *)symobj[npushed]) pushed_ok = 0; npushed++; }

void h_sysv(void)
{
  u8 want_name = nondet_u8(); __CPROVER_assume(want_name == 1 || want_name == 2);
  namesel[0] = 0;
  for (int i = 1; i < NS; i++) { namesel[i] = nondet_u8(); __CPROVER_assume(namesel[i] < 3); }
  for (int i = 0; i < 3; i++) hashv[i] = nondet_u32();
  for (int i = 0; i < HTW; i++) ht[i] = 0;
#ifndef CORRUPT
  u32 nb = nondet_u32(); __CPROVER_assume(nb >= 1 && nb <= 3);
  _Bool ascending = nondet_bool();
  ht[0] = nb; ht[1] = NS;
  /* link every symbol i >= 1 at the head of the chain of its bucket */
  for (int k = 1; k < NS; k++) {
    int i = ascending ? NS - k : k;            /* inserting NS-1 .. 1 yields ascending chains */
    u32 b = hashv[namesel[i]] % nb;
    ht[2 + nb + i] = ht[2 + b]; ht[2 + b] = i;
  }
  ht_size = 4 * (2 + nb + NS);
#else
  for (int i = 0; i < HTW; i++) ht[i] = nondet_u32();
  ht_size = nondet_u64(); __CPROVER_assume(ht_size <= 4 * HTW);
#endif
  /* the section data is an allocation of exactly d_size bytes: reading past it is an out-of-bounds read */
  u8 *buf = malloc(ht_size); __CPROVER_assume(buf != 0);
  memcpy(buf, ht, ht_size);
  data_hash.d_buf = buf; data_hash.d_size = ht_size;
  data_symtab.d_buf = 0; data_symtab.d_size = NS * 24;
  vstr_t nm; vs_make(&nm, names[want_name]);
  u64 found_vec[3] = {0, 0, 0};
  ncreated = npushed = 0; pushed_ok = 1; getsym_calls = 0;
  u8 r = LOOKUP((void *)env_dummy, (void *)elf_dummy, &nm, 2, 1, 0, (void *)found_vec);
#ifndef CORRUPT
  u32 want = 0; for (int i = 1; i < NS; i++) if (namesel[i] == want_name) want++;
  PROP((r != 0) == (want > 0), "C37-sysv-found-iff-present: the SysV hash lookup finds a name exactly when the dynamic symbol table contains it");
  PROP(ncreated == want && npushed == want && pushed_ok, "C37-sysv-all-instances: every symbol carrying the name is returned, once");
  for (u32 k = 0; k < NS; k++) if (k < ncreated) PROP(created[k] >= 1 && created[k] < NS && namesel[created[k]] == want_name, "C37-sysv-right-symbols: only symbols carrying the name are returned");
  COVER(want == 2 && nb == 1); COVER(want == 1 && nb == 3); COVER(r == 0);
#else
  PROP(npushed == ncreated && pushed_ok, "C34-sysv-corrupt-consistent: whatever the hash section holds, the lookup returns normally with the symbols it created");
  COVER(r != 0); COVER(ht_size < 8); COVER(ht_size == 4 * HTW && ht[0] == 2);
#endif
  WITNESS_END();
}
