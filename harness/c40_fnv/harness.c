/* C40 - the hash behind --type-id-style hash: hashing::fnv_hash (src/abg-hash.cc) on ANY name of up to N
   bytes.  (1) it is 32-bit FNV-1a of exactly the bytes of the name; (2) it depends on the bytes only: the same
   name held in a different std::string representation (SSO buffer vs heap buffer with spare capacity and
   garbage after the terminator) hashes identically - ids do not depend on the document the type sits in. */
#include "unit.h"
#include "verif.h"
typedef struct class_std____cxx11__basic_string vstr;
#define FNV _ZN7abigail7hashing8fnv_hashERKNSt7__cxx1112basic_stringIcSt11char_traitsIcESaIcEEE
#ifndef N
#define N 4
#endif
void h_fnv(void)
{
  vstr s, t;
  vs_nondet(&s, N);
  u32 h = FNV(&s);
  u32 ref = 0x811c9dc5u;
  for (u64 i = 0; i < N; i++)
    if (i < s.f1) { ref ^= s.f0.f0[i]; ref *= 0x01000193u; }
  PROP(h == ref, "C40-fnv1a: fnv_hash is 32-bit FNV-1a of the bytes of the name");
  /* same bytes, heap representation: capacity 24, arbitrary bytes after the terminator */
  static u8 heap[25];
  for (u64 i = 0; i < 25; i++) heap[i] = nondet_u8();
  for (u64 i = 0; i < N; i++) if (i < s.f1) heap[i] = s.f0.f0[i];
  heap[s.f1] = 0;
  t.f0.f0 = heap; t.f1 = s.f1; *(u64 *)&t.f2[0] = 24;
  PROP(FNV(&t) == h, "C40-fnv-representation-independent: equal names hash equally whatever the string representation");
  COVER(s.f1 == N);
  COVER(s.f1 == 0 && h == 0x811c9dc5u);
  WITNESS_END();
}
