/* tools/abicompat.cc: the real perform_compat_check_in_normal_mode and the real main() + read_corpus, against contract
   stubs (autostubs for the rest).
   C29: the interfaces kept in BOTH libraries are exactly the application's undefined function / variable symbols (in
        order), the libraries are trimmed together or not at all, and the verdict is that of the trimmed comparison.
   C09/C08: any input of abicompat that cannot be loaded gives the error bit; documented status bits only. */
#include "unit.h"
#include "verif.h"
#define NORMAL _Z35perform_compat_check_in_normal_modeR7optionsRSt10shared_ptrIN7abigail10comparison12diff_contextEES1_INS2_2ir6corpusEES9_S9_
typedef struct class_std____cxx11__basic_string vstr_t;
typedef struct { void *p, *c; } sp_t;
typedef struct { sp_t *b, *e, *cap; } spvec_t;
typedef struct { vstr_t *b, *e, *c; } strvec_t;

static u64 app_obj[4], lib_obj[2][4], sym_obj[4][2], diff_obj[4], ctx_obj[4];
static vstr_t sym_id[4];
static sp_t fsyms[2], vsyms[2]; static spvec_t undef_f, undef_v;
static strvec_t keep_f[2], keep_v[2];
static u32 dropped[2]; static _Bool net, inc, reported, diffed; static u32 drop_before_diff;
static void *cd_vtbl[6];
static void cd_report(struct class_abigail__comparison__corpus_diff *d, struct class_std__basic_ostream *o, vstr_t *indent) { reported = 1; }

void *_ZNK7abigail2ir6corpus32get_sorted_undefined_fun_symbolsEv(void *c) { return &undef_f; }
void *_ZNK7abigail2ir6corpus32get_sorted_undefined_var_symbolsEv(void *c) { return &undef_v; }
vstr_t *_ZNK7abigail2ir10elf_symbol13get_id_stringB5cxx11Ev(void *s) { return &sym_id[((u64 *)s - &sym_obj[0][0]) / 2]; }
vstr_t *_ZNK7abigail2ir10elf_symbol8get_nameB5cxx11Ev(void *s) { return &sym_id[((u64 *)s - &sym_obj[0][0]) / 2]; }
static int lib_of(void *c) { return c == (void *)lib_obj[1]; }
void *_ZN7abigail2ir6corpus26get_sym_ids_of_fns_to_keepB5cxx11Ev(void *c) { return &keep_f[lib_of(c)]; }
void *_ZN7abigail2ir6corpus27get_sym_ids_of_vars_to_keepB5cxx11Ev(void *c) { return &keep_v[lib_of(c)]; }
void _ZN7abigail2ir6corpus30maybe_drop_some_exported_declsEv(void *c) { dropped[lib_of(c)]++; if (!diffed) drop_before_diff++; }
void _ZN7abigail10comparison12compute_diffESt10shared_ptrINS_2ir6corpusEES4_S1_INS0_12diff_contextEE(void *sret, void *a, void *b, void *c)
{ sp_t *r = sret; diff_obj[0] = (u64)cd_vtbl; r->p = diff_obj; r->c = 0; diffed = 1; }
u8 _ZNK7abigail10comparison11corpus_diff15has_net_changesEv(void *d) { return net; }
u8 _ZNK7abigail10comparison11corpus_diff24has_incompatible_changesEv(void *d) { return inc; }

static u8 opts_mem[1024] __attribute__((aligned(16)));
static int same_ids(strvec_t *v, vstr_t **want, u64 n)
{
  u64 got = v->b ? (u64)(v->e - v->b) : 0;
  if (got != n) return 0;
  for (u64 i = 0; i < 2; i++) if (i < n && !vs_eq(&v->b[i], want[i])) return 0;
  return 1;
}
void h_normal_mode(void)
{
  cd_vtbl[2] = (void *)cd_report;
  u64 nf = nondet_u64(), nv = nondet_u64(); __CPROVER_assume(nf <= 2 && nv <= 2);
  for (int i = 0; i < 4; i++) vs_nondet(&sym_id[i], 1);
  fsyms[0].p = sym_obj[0]; fsyms[1].p = sym_obj[1]; vsyms[0].p = sym_obj[2]; vsyms[1].p = sym_obj[3];
  fsyms[0].c = fsyms[1].c = vsyms[0].c = vsyms[1].c = 0;
  undef_f.b = fsyms; undef_f.e = fsyms + nf; undef_f.cap = fsyms + 2;
  undef_v.b = vsyms; undef_v.e = vsyms + nv; undef_v.cap = vsyms + 2;
  memset(keep_f, 0, sizeof keep_f); memset(keep_v, 0, sizeof keep_v);
  dropped[0] = dropped[1] = 0; reported = diffed = 0; drop_before_diff = 0;
  net = nondet_bool(); inc = nondet_bool();
  __CPROVER_assume(!inc || net);   /* proved over arbitrary statistics (c08_status) */
  __CPROVER_assert(w_opts_size() <= sizeof opts_mem, "BOUND: options struct larger than the harness buffer");
  void *opts = w_opts_new(opts_mem);
  _Bool b[11]; for (int i = 0; i < 11; i++) b[i] = nondet_bool();
  w_opts_set(opts, (void *)b);
  sp_t ctx = { ctx_obj, 0 }, app = { app_obj, 0 }, l1 = { lib_obj[0], 0 }, l2 = { lib_obj[1], 0 };
  u32 st = NORMAL(opts, (void *)&ctx, (void *)&app, (void *)&l1, (void *)&l2);

  vstr_t *wf[2] = { &sym_id[0], &sym_id[1] }, *wv[2] = { &sym_id[2], &sym_id[3] };
  PROP(same_ids(&keep_f[0], wf, nf) && same_ids(&keep_f[1], wf, nf), "C29-kept-functions: the function symbol ids kept in both libraries are exactly the application's undefined function symbols, in order");
  PROP(same_ids(&keep_v[0], wv, nv) && same_ids(&keep_v[1], wv, nv), "C29-kept-variables: the variable symbol ids kept in both libraries are exactly the application's undefined variable symbols, in order");
  PROP(dropped[0] == dropped[1] && dropped[0] == ((nf || nv) ? 1 : 0), "C29-trim-both-or-neither: both libraries are trimmed to the kept interfaces exactly once when the application uses any symbol, and neither otherwise");
  PROP(drop_before_diff == dropped[0] + dropped[1], "C29-trim-before-compare: the libraries are trimmed before they are compared");
  PROP(st == (net ? (inc ? 12u : 4u) : 0u), "C29-verdict: status is 0 without net change, ABI_CHANGE with one, plus INCOMPATIBLE when the comparison says so");
  PROP(reported == net, "C29-report-iff-change");
  COVER(nf == 2 && nv == 1 && st == 12); COVER(nf == 0 && nv == 0 && st == 0);
  WITNESS_END();
}

/* ---- main ---- */
static _Bool parse_ok, load_failed, loaded_any; static u32 ftype[3], n_guess, opt_flags_set;
static _Bool m_help, m_version, m_weak, m_list, m_red, m_nored, m_failnodi;
u8 _Z18parse_command_lineiPPcR7options(u32 argc, u8 **argv, void *opts)
{
  _Bool b[11] = { m_help, m_version, m_weak, m_list, nondet_bool(), nondet_bool(), m_red, m_nored, nondet_bool(), m_failnodi, nondet_bool() };
  w_opts_set(opts, (void *)b);
  vs_make(w_opts_str(opts, 0), "a"); vs_make(w_opts_str(opts, 1), "b"); vs_make(w_opts_str(opts, 2), "c");
  return parse_ok;
}
u32 _ZN7abigail11tools_utils15guess_file_typeERKNSt7__cxx1112basic_stringIcSt11char_traitsIcESaIcEEE(vstr_t *p)
{ __CPROVER_assert(n_guess < 3, "BOUND: guess_file_type"); __CPROVER_assume(n_guess < 3); return ftype[n_guess++]; }
static u64 pool[8][4]; static u32 pool_n;
static void *fresh(void) { __CPROVER_assert(pool_n < 8, "BOUND: object pool"); __CPROVER_assume(pool_n < 8); return pool[pool_n++]; }
void _ZN7abigail12dwarf_reader20read_corpus_from_elfERKNSt7__cxx1112basic_stringIcSt11char_traitsIcESaIcEEERKSt6vectorIPPcSaISB_EEPNS_2ir11environmentEbRNS_10elf_reader6statusE(void *sret, vstr_t *p, void *v, void *env, u8 all, u32 *status)
{
  sp_t *r = sret; u32 st = nondet_u32(); __CPROVER_assume(st <= 15);
  _Bool fails = (st & 8) || ((st & 4) && !(st & 2));      /* contract of read_corpus_from_elf (src/abg-dwarf-reader.cc) */
  __CPROVER_assume(fails == !(st & 1));
  *status = st; if (fails) load_failed = 1; else loaded_any = 1;
  r->p = fails ? 0 : fresh(); r->c = 0;
}
void _ZN7abigail10xml_reader22read_corpus_from_inputERNS0_12read_contextE(void *sret, void *c)
{ sp_t *r = sret; _Bool ok = nondet_bool(); if (!ok) load_failed = 1; else loaded_any = 1; r->p = ok ? fresh() : 0; r->c = 0; }
void _ZN7abigail10xml_reader30create_native_xml_read_contextERKNSt7__cxx1112basic_stringIcSt11char_traitsIcESaIcEEEPNS_2ir11environmentE(void *sret, vstr_t *p, void *env) { sp_t *r = sret; r->p = fresh(); r->c = 0; }
void _Z19create_diff_contextRK7options(void *sret, void *o) { sp_t *r = sret; r->p = ctx_obj; r->c = 0; }
u32 _Z33perform_compat_check_in_weak_modeR7optionsRSt10shared_ptrIN7abigail10comparison12diff_contextEES1_INS2_2ir6corpusEES9_(void *o, void *c, void *a, void *l)
{ u32 s = nondet_u32(); __CPROVER_assume(s == 0 || s == 4 || s == 12); return s; }

void h_main(void)
{
  cd_vtbl[2] = (void *)cd_report;
  pool_n = 0; n_guess = 0; load_failed = loaded_any = 0; reported = diffed = 0; dropped[0] = dropped[1] = 0;
  undef_f.b = undef_f.e = undef_f.cap = 0; undef_v.b = undef_v.e = undef_v.cap = 0;
  memset(keep_f, 0, sizeof keep_f); memset(keep_v, 0, sizeof keep_v);
  parse_ok = nondet_bool(); m_help = nondet_bool(); m_version = nondet_bool(); m_weak = nondet_bool(); m_list = nondet_bool();
  m_red = nondet_bool(); m_nored = nondet_bool(); m_failnodi = nondet_bool();
  for (int i = 0; i < 3; i++) { ftype[i] = nondet_u32(); __CPROVER_assume(ftype[i] <= 10); }
  net = nondet_bool(); inc = nondet_bool(); __CPROVER_assume(!inc || net);
  static u8 prog[] = "abicompat"; u8 *argv[2] = { prog, 0 };
  u32 rc = _Z14abicompat_mainiPPc(1, argv);
  PROP((rc & ~15u) == 0 && (!(rc & 8) || (rc & 4)) && (!(rc & 2) || (rc & 1)), "C08-abicompat-status-lattice: documented bits only, incompatible implies change, usage error implies error");
  PROP(!load_failed || (rc & 1), "C09-abicompat-failed-load-sets-error: when the application or a library could not be loaded the error bit is set");
  PROP(!load_failed || rc != 0, "C09-abicompat-failed-load-nonzero");
  COVER(load_failed && rc == 1); COVER(diffed && rc == 12); COVER(diffed && rc == 0); COVER(rc == 3);
  WITNESS_END();
}
