// tools/abicompat.cc (copy generated on every run from the current tree, file-local functions given external linkage,
// main renamed abicompat_main) + accessors for the C harness.
#include "abicompat_ns.cc"
#include <new>
extern "C" {
unsigned long w_opts_size() { return sizeof(options); }
options* w_opts_new(void* mem) { return new (mem) options("abicompat"); }
void w_opts_set(options* o, const bool* b)
{
  o->display_help = b[0]; o->display_version = b[1]; o->weak_mode = b[2]; o->list_undefined_symbols_only = b[3];
  o->show_base_names = b[4]; o->show_redundant = b[5]; o->redundant_opt_set = b[6]; o->no_redundant_opt_set = b[7];
  o->show_locs = b[8]; o->fail_no_debug_info = b[9]; o->ignore_soname = b[10];
}
std::string* w_opts_str(options* o, int i) { return i == 0 ? &o->app_path : i == 1 ? &o->lib1_path : i == 2 ? &o->lib2_path : &o->unknow_option; }
}
