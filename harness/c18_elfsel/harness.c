/* C18 (versions, symbol table choice): the real get_version_definition_for_versym, get_version_needed_for_versym,
   get_version_for_symbol, get_symbol_versionning_sections and find_symbol_table_section (src/abg-elf-helpers.cc) with
   libelf replaced by contract stubs over a SYMBOLIC well-formed version list. */
#include "unit.h"
#include "verif.h"
#define VERDEF _ZN7abigail11elf_helpers33get_version_definition_for_versymEP3ElfPtP7Elf_ScnRNS_2ir10elf_symbol7versionE
#define VERNEED _ZN7abigail11elf_helpers29get_version_needed_for_versymEP3ElfPtP7Elf_ScnRNS_2ir10elf_symbol7versionE
#define VERSYM _ZN7abigail11elf_helpers22get_version_for_symbolEP3ElfmbRNS_2ir10elf_symbol7versionE
#define SYMTABSEL _ZN7abigail11elf_helpers25find_symbol_table_sectionEP3Elf
typedef struct class_std____cxx11__basic_string vstr_t;
#define NV 3
static u64 elf_dummy[4], scn_def[4], scn_need[4], scn_sym[4], scn_other[4], ver_obj[4];
static struct struct_Elf_Data data_def, data_need, data_sym;
static u32 n_ent; static u16 ndx[NV]; static _Bool have_data;
static const char *const vnames[NV] = { "V0", "V1", "V2" };
/* recorded version */
static int rec_name = -1; static int rec_default = -1;
void _ZN7abigail2ir10elf_symbol7version3strERKNSt7__cxx1112basic_stringIcSt11char_traitsIcESaIcEEE(void *v, vstr_t *s)
{ rec_name = s->f1 == 2 && s->f0.f0[0] == 'V' ? s->f0.f0[1] - '0' : 99; }
void _ZN7abigail2ir10elf_symbol7version10is_defaultEb(void *v, u8 f) { rec_default = f; }

void *elf_getdata(void *scn, void *prev)
{ if (!have_data) return 0; return scn == (void *)scn_def ? (void *)&data_def : scn == (void *)scn_need ? (void *)&data_need : scn == (void *)scn_sym ? (void *)&data_sym : 0; }
/* records live at offsets 0, 20, 40; auxiliary records at record offset + 100 */
static int ent_at(u64 off) { return off == 0 ? 0 : off == 20 ? 1 : off == 40 ? 2 : -1; }
void *gelf_getverdef(void *data, u32 off, void *dst_)
{
  struct struct_Elf64_Verdef *d = dst_; int i = ent_at(off);
  if (data != (void *)&data_def || i < 0 || (u32)i >= n_ent) return 0;
  memset(d, 0, sizeof *d); d->f2 = ndx[i]; d->f5 = 100; d->f6 = (u32)i + 1 < n_ent ? 20 : 0;   /* vd_ndx, vd_aux, vd_next */
  return d;
}
void *gelf_getverdaux(void *data, u32 off, void *dst_)
{
  struct struct_Elf64_Verdaux *d = dst_; int i = off >= 100 ? ent_at(off - 100) : -1;
  if (i < 0 || (u32)i >= n_ent) return 0;
  d->f0 = (u32)i; d->f1 = 0;    /* vda_name = index into vnames */
  return d;
}
void *gelf_getverneed(void *data, u32 off, void *dst_)
{
  struct struct_Elf64_Verneed *d = dst_; int i = ent_at(off);
  if (data != (void *)&data_need || i < 0 || (u32)i >= n_ent) return 0;
  memset(d, 0, sizeof *d); d->f3 = 100; d->f4 = (u32)i + 1 < n_ent ? 20 : 0;   /* vn_aux, vn_next */
  return d;
}
void *gelf_getvernaux(void *data, u32 off, void *dst_)
{
  struct struct_Elf64_Vernaux *d = dst_; int i = off >= 100 ? ent_at(off - 100) : -1;
  if (i < 0 || (u32)i >= n_ent) return 0;
  memset(d, 0, sizeof *d); d->f2 = ndx[i]; d->f3 = (u32)i;      /* vna_other, vna_name */
  return d;
}
void *gelf_getshdr(void *scn, void *dst_)
{
  struct struct_Elf64_Shdr *d = dst_; memset(d, 0, sizeof *d);
  d->f1 = scn == (void *)scn_sym ? 0x6fffffff : scn == (void *)scn_def ? 0x6ffffffd : scn == (void *)scn_need ? 0x6ffffffe : 1;
  d->f6 = 9;
  return d;
}
u8 *elf_strptr(void *elf, u64 link, u64 off) { return off < NV ? (u8 *)vnames[off] : 0; }

static void mklist(void)
{
  n_ent = nondet_u32(); __CPROVER_assume(n_ent <= NV);
  for (int i = 0; i < NV; i++) ndx[i] = nondet_u16();
  have_data = 1; rec_name = -1; rec_default = -1;
}
void h_verdef(void)
{
  mklist();
  have_data = nondet_bool();
  u16 versym = nondet_u16();
  u8 r = VERDEF((void *)elf_dummy, &versym, (void *)scn_def, (void *)ver_obj);
  int want = -1;
  for (int i = NV - 1; i >= 0; i--) if ((u32)i < n_ent && have_data && ndx[i] == (versym & 0x7fff)) want = i;
  PROP((r != 0) == (want >= 0), "C18-verdef-found-iff: a version definition is found exactly when one has the index of the symbol's versym entry (hidden bit masked)");
  if (r) {
    PROP(rec_name == want, "C18-verdef-name: the version name is that of the first definition with the entry's index");
    PROP(rec_default == !(versym & 0x8000), "C18-verdef-default: the version is the default one exactly when the hidden bit of the versym entry is clear");
  }
  COVER(r && want == 2 && (versym & 0x8000)); COVER(!r && n_ent == 3); COVER(!have_data);
  WITNESS_END();
}

/* get_version_for_symbol: section walk + versym + definition / need */
static u32 sec_i; static _Bool has_versym, has_def, has_need; static u16 the_versym; static _Bool versym_ok;
void *elf_nextscn(void *elf, void *prev)
{
  /* sections in order: other, versym?, verdef?, verneed? */
  void *order[4] = { scn_other, has_versym ? (void *)scn_sym : 0, has_def ? (void *)scn_def : 0, has_need ? (void *)scn_need : 0 };
  int start = prev == 0 ? 0 : prev == (void *)scn_other ? 1 : prev == (void *)scn_sym ? 2 : prev == (void *)scn_def ? 3 : 4;
  for (int i = start; i < 4; i++) if (order[i]) return order[i];
  return 0;
}
u16 *gelf_getversym(void *data, u32 idx, u16 *dst) { if (!versym_ok) return 0; *dst = the_versym; return dst; }
void h_version_for_symbol(void)
{
  mklist();
  has_versym = nondet_bool(); has_def = nondet_bool(); has_need = nondet_bool(); versym_ok = nondet_bool(); the_versym = nondet_u16();
  /* C18 is about DEFINED symbols.  (For undefined symbols the walk of the version-needed records only ever looks at
     the first auxiliary record - observed, recorded in DESIGN.md, outside this property.) */
  _Bool get_def = 1;
  u8 r = VERSYM((void *)elf_dummy, 5, get_def, (void *)ver_obj);
  int want = -1;
  for (int i = NV - 1; i >= 0; i--) if ((u32)i < n_ent && (get_def ? ndx[i] == (the_versym & 0x7fff) : ndx[i] == the_versym)) want = i;
  int usable = has_versym && versym_ok && the_versym > 1 && !(get_def && the_versym == 0x8001) && (get_def ? has_def : has_need);
  PROP((r != 0) == (usable && want >= 0), "C18-version-for-symbol: a symbol has a version exactly when its versym entry is > 1 (and not the hidden base 0x8001 for definitions) and a definition (defined symbols) or a needed version (undefined symbols) carries that index");
  if (r) PROP(rec_name == want && rec_default == !(the_versym & 0x8000), "C18-version-for-symbol-value: name and default-ness come from that record and the hidden bit");
  COVER(r && want == 1); COVER(!r && usable); COVER(!usable && has_versym);
  WITNESS_END();
}

static _Bool have_dyn, have_tab; static u16 e_type;
void *_ZN7abigail11elf_helpers19find_dynsym_sectionEP3Elf(void *e) { return have_dyn ? (void *)scn_def : 0; }
void *_ZN7abigail11elf_helpers19find_symtab_sectionEP3Elf(void *e) { return have_tab ? (void *)scn_sym : 0; }
void *gelf_getehdr(void *elf, void *dst_) { struct struct_Elf64_Ehdr *d = dst_; memset(d, 0, sizeof *d); d->f1 = e_type; return d; }
void h_symtab_choice(void)
{
  have_dyn = nondet_bool(); have_tab = nondet_bool(); e_type = nondet_u16();
  void *r = SYMTABSEL((void *)elf_dummy);
  void *dyn = have_dyn ? (void *)scn_def : 0, *tab = have_tab ? (void *)scn_sym : 0;
  void *want = (e_type == 1 || e_type == 2) ? (tab ? tab : dyn) : (dyn ? dyn : tab);
  PROP(r == want, "C18-symtab-choice: relocatable objects and executables use .symtab (else .dynsym), other files .dynsym (else .symtab), none if neither exists");
  COVER(r == dyn && dyn && tab); COVER(r == tab && dyn && tab); COVER(r == 0);
  WITNESS_END();
}
