/* tools/abilint.cc:main (real, complete) against contract stubs: any options, any file type, loaders yield an
   object or fail, the writers insert bytes into the stream they were given (ostream model with FAULT INJECTION:
   any insertion or flush may put the stream into a failed state), system() records what was flushed.
   C03: the temporary re-serialization is completely flushed before `diff -u` reads it, and diff's verdict decides
   C36: a failed write is never reported as success          C33: no member call on a null corpus */
#include "unit.h"
#include "verif.h"
typedef struct class_std____cxx11__basic_string vstr_t;
typedef struct { void *p, *c; } sp_t;
extern void *os_target, *os_target_ios; extern _Bool os_failed, os_cin_good; extern u32 os_fail_state; extern u32 os_pending, os_written; extern void *os_cin_ios;
void *os_ios_of(void *os); void os_harness_write(void *os, u32 n);

static _Bool o_version, o_stdin, o_tu, o_diff, o_noout, have_path, parse_ok;
static u32 ftype;
static _Bool load_failed, loaded, tmp_ok, system_called, wrote;
static u32 pending_at_system, system_rc;
static u64 obj_pool[10][8]; static u32 obj_n;
static void *fresh(void) { __CPROVER_assert(obj_n < 10, "BOUND: object pool"); __CPROVER_assume(obj_n < 10); return obj_pool[obj_n++]; }

/* the temporary file's std::fstream: istream part {vptr, gcount} at +0, ostream part {vptr} at +16, basic_ios at +24 */
static int64_t tmp_vt[6] = { 8, 0, 0, 0, 0, 0 };
static u64 tmp_stream[80];

u8 _Z18parse_command_lineiPPcR7options(u32 argc, u8 **argv, void *opts)
{
  _Bool b[5] = { o_version, o_stdin, o_tu, o_diff, o_noout };
  w_opts_set(opts, (void *)b);
  if (have_path) vs_make(w_opts_str(opts, 0), "f");
  return parse_ok;
}
u32 _ZN7abigail11tools_utils15guess_file_typeERKNSt7__cxx1112basic_stringIcSt11char_traitsIcESaIcEEE(vstr_t *p) { return ftype; }
static void load_result(void *sret) { sp_t *r = sret; _Bool ok = nondet_bool(); if (ok) loaded = 1; else load_failed = 1; r->p = ok ? fresh() : 0; r->c = 0; }
void _ZN7abigail10xml_reader21read_translation_unitERNS0_12read_contextE(void *sret, void *c) { load_result(sret); }
void _ZN7abigail10xml_reader22read_corpus_from_inputERNS0_12read_contextE(void *sret, void *c) { load_result(sret); }
void _ZN7abigail10xml_reader28read_corpus_group_from_inputERNS0_12read_contextE(void *sret, void *c) { load_result(sret); }
void _ZN7abigail10xml_reader34read_translation_unit_from_istreamEPSiPNS_2ir11environmentE(void *sret, void *in, void *env) { load_result(sret); }
void _ZN7abigail12dwarf_reader20read_corpus_from_elfERNS0_12read_contextERNS_10elf_reader6statusE(void *sret, void *ctxt, u32 *status)
{
  sp_t *r = sret; u32 st = nondet_u32();
  __CPROVER_assume(st <= 15);
  _Bool fails = (st & 8) || ((st & 4) && !(st & 2));      /* contract: see src/abg-dwarf-reader.cc:read_corpus_from_elf */
  __CPROVER_assume(fails == !(st & 1));
  *status = st;
  if (fails) load_failed = 1; else loaded = 1;
  r->p = fails ? 0 : fresh(); r->c = 0;
}
static void nonnull(void *sret) { sp_t *r = sret; r->p = fresh(); r->c = 0; }
void _ZN7abigail10xml_reader30create_native_xml_read_contextEPSiPNS_2ir11environmentE(void *sret, void *in, void *env) { nonnull(sret); }
void _ZN7abigail10xml_reader30create_native_xml_read_contextERKNSt7__cxx1112basic_stringIcSt11char_traitsIcESaIcEEEPNS_2ir11environmentE(void *sret, vstr_t *p, void *env) { nonnull(sret); }
void _ZN7abigail12dwarf_reader19create_read_contextERKNSt7__cxx1112basic_stringIcSt11char_traitsIcESaIcEEERKSt6vectorIPPcSaISB_EEPNS_2ir11environmentEbb(void *sret, vstr_t *p, void *v, void *env, u8 a, u8 b) { nonnull(sret); }
void _ZN7abigail11tools_utils9temp_file6createEv(void *sret) { sp_t *r = sret; r->p = tmp_ok ? fresh() : 0; r->c = 0; }
void *_ZN7abigail11tools_utils9temp_file10get_streamEv(void *t) { return tmp_stream; }
u8 *_ZNK7abigail11tools_utils9temp_file8get_pathEv(void *t) { static u8 path[] = "t"; return path; }   /* never null (c_str()) */
/* environments are set at construction and never null; calling the getter on a null object is the defect */
static void *env_of(void *o) { PROP(o != 0, "C33-null-object-call: a member function is called on a null corpus/translation unit (input that failed to load)"); return obj_pool[9]; }
void *_ZN7abigail2ir16translation_unit15get_environmentEv(void *o) { return env_of(o); }
void *_ZN7abigail2ir6corpus15get_environmentEv(void *o) { return env_of(o); }
void _ZN7abigail10xml_writer20create_write_contextEPKNS_2ir11environmentERSo(void *sret, void *env, void *of)
{ nonnull(sret); os_target = of; os_target_ios = os_ios_of(of); }
static u8 do_write(void) { wrote = 1; os_harness_write(os_target, 2); return nondet_bool(); }
u8 _ZN7abigail10xml_writer12write_corpusERNS0_13write_contextERKSt10shared_ptrINS_2ir6corpusEEjb(void *c, void *o, u32 i, u8 m) { return do_write(); }
u8 _ZN7abigail10xml_writer18write_corpus_groupERNS0_13write_contextERKSt10shared_ptrINS_2ir12corpus_groupEEj(void *c, void *o, u32 i) { return do_write(); }
u8 _ZN7abigail10xml_writer22write_translation_unitERNS0_13write_contextERKNS_2ir16translation_unitEjb(void *c, void *o, u32 i, u8 m) { return do_write(); }
int system(const char *cmd) { system_called = 1; pending_at_system = os_pending; system_rc = nondet_u32(); return system_rc; }

void h_main(void)
{
  obj_n = 0; load_failed = loaded = system_called = wrote = 0; os_failed = 0; os_fail_state = 0; os_pending = 0; os_written = 0; os_target = (void *)obj_pool; os_target_ios = 0;
  tmp_stream[2] = (u64)&tmp_vt[3];
  o_version = nondet_bool(); o_stdin = nondet_bool(); o_tu = nondet_bool(); o_diff = nondet_bool(); o_noout = nondet_bool();
  have_path = nondet_bool(); parse_ok = nondet_bool(); tmp_ok = nondet_bool();
  os_cin_good = nondet_bool(); os_cin_ios = os_ios_of(&_ZSt3cin);
  ftype = nondet_u32(); __CPROVER_assume(ftype <= 10);
  static u8 prog[] = "abilint"; u8 *argv[2] = { prog, 0 };
  u32 rc = _Z12abilint_mainiPPc(1, argv);

  PROP(!system_called || pending_at_system == 0, "C03-flush-before-diff: every byte of the re-serialization has been flushed to the temporary file when `diff -u` is run on it");
  PROP(!system_called || system_rc == 0 || rc != 0, "C03-diff-verdict-decides: a difference found by `diff -u` gives a non-zero exit status");
  PROP(!(o_diff && !o_stdin && loaded && wrote && rc == 0 && (ftype == 1 || ftype == 4 || ftype == 5)) || system_called, "C03-diff-is-run: --diff on an ABIXML input that was re-written compares it with the original");
  PROP(!(load_failed && !loaded) || rc != 0, "C03-load-failure-nonzero: an input that could not be read never exits 0");
  PROP(!(wrote && os_failed) || rc != 0, "C36-write-failure-nonzero: when writing the output failed the exit status is not 0");
  COVER(system_called && rc == 0); COVER(wrote && os_failed); COVER(wrote && !os_failed && rc == 0 && !o_diff); COVER(o_stdin && wrote); COVER(load_failed && rc == 1);
  WITNESS_END();
}
