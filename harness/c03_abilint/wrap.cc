// tools/abilint.cc (copy generated on every run from the current tree, file-local functions given external
// linkage, main renamed abilint_main) + accessors for the C harness.
#include "abilint_ns.cc"
extern "C" {
void w_opts_set(options* o, const bool* b)
{ o->display_version = b[0]; o->read_from_stdin = b[1]; o->read_tu = b[2]; o->diff = b[3]; o->noout = b[4]; }
std::string* w_opts_str(options* o, int i) { return i == 0 ? &o->file_path : &o->wrong_option; }
}
