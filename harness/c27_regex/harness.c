/* C27 - the regular expression generated from a list of names (KMI whitelists, --keep/--drop lists): the real
   regex::generate_from_strings and operator<<(ostream&, const regex::escape&) (src/abg-regex.cc).  For ALL lists of up to
   NN names of up to NL bytes over an alphabet containing ERE special characters, the result is exactly
   ^(e1|e2|...)$ where each ei is the name with every ERE special byte backslash-escaped and nothing else changed;
   the empty list gives the pattern ^_^ that matches nothing. */
#include "unit.h"
#include "verif.h"
#ifndef NN
#define NN 2
#endif
#ifndef NL
#define NL 2
#endif
#define GEN _ZN7abigail5regex21generate_from_stringsERKSt6vectorINSt7__cxx1112basic_stringIcSt11char_traitsIcESaIcEEESaIS7_EE
typedef struct class_std____cxx11__basic_string vstr_t;
static int special(u8 c) { const char *sp = "^.[]$()|*+?{}\\"; for (int i = 0; i < 14; i++) if ((u8)sp[i] == c) return 1; return 0; }
void h_from_strings(void)
{
  static vstr_t names[NN]; vstr_t out;
  u64 n = nondet_u64(); __CPROVER_assume(n <= NN);
  for (int i = 0; i < NN; i++) {
    vs_nondet(&names[i], NL);
    for (u64 k = 0; k < NL; k++) if (k < names[i].f1) { u8 c = names[i].f0.f0[k]; __CPROVER_assume(c == 'a' || c == '.' || c == '*' || c == '\\' || c == '|' || c == '$' || c == '(' || c == '+'); }
  }
  struct { vstr_t *b, *e, *c; } v = { names, names + n, names + NN };
  GEN(&out, (void *)&v);
  /* reference */
  u8 ref[4 + NN * (2 * NL + 1)]; u64 m = 0;
  if (n == 0) { ref[0] = '^'; ref[1] = '_'; ref[2] = '^'; m = 3; }
  else {
    ref[m++] = '^'; ref[m++] = '(';
    for (u64 i = 0; i < NN; i++) if (i < n) {
      if (i) ref[m++] = '|';
      for (u64 k = 0; k < NL; k++) if (k < names[i].f1) { u8 c = names[i].f0.f0[k]; if (special(c)) ref[m++] = '\\'; ref[m++] = c; }
    }
    ref[m++] = ')'; ref[m++] = '$';
  }
  int same = out.f1 == m;
  for (u64 i = 0; i < sizeof ref; i++) if (i < m && i < out.f1 && out.f0.f0[i] != ref[i]) same = 0;
  PROP(same, "C27-pattern-from-names: the generated pattern is ^(e1|...|en)$ with every ERE special byte of each name escaped and nothing else changed; ^_^ for an empty list");
  COVER(n == NN && names[0].f1 == NL && names[0].f0.f0[0] == '.'); COVER(n == 0); COVER(n == 1 && names[0].f1 == 0);
  WITNESS_END();
}
