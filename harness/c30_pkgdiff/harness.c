/* tools/abipkgdiff.cc: the real compare_prepared_userspace_packages and the real comparison_done_notify::operator()
   (compiled from the current source), on real std::map<string, elf_file_sptr> objects built by the harness (the
   std::map code - find, iteration, erase - is the real libstdc++ template code; tree leaf routines: engine/models/rbtree.c).
   C30: a binary of the first package that is missing from the second gives the change and incompatible-change bits;
        the notifier accumulates every task status and records each changed binary. */
#include "unit.h"
#include "verif.h"
#define COMPARE _Z35compare_prepared_userspace_packagesR7packageS0_R8abi_diffR7options
typedef struct class_std____cxx11__basic_string vstr_t;
typedef struct { void *p, *c; } sp_t;
typedef struct rbn { u32 color; struct rbn *parent, *left, *right; } rbn;
typedef struct { rbn n; vstr_t key; sp_t val; } mapnode;
typedef struct { u64 cmp; rbn header; u64 count; } mapobj;

static mapobj maps[2]; static mapnode nodes[2][2];
static u64 pkg[2][64], elf_mem[4][16], diff_mem[16], opts_mem[256];
static u64 empty_vec[3];
void *_ZN7package22path_elf_file_sptr_mapB5cxx11Ev(void *p) { return p == (void *)pkg[0] ? &maps[0] : &maps[1]; }
void *_ZN7package19debug_info_packagesEv(void *p) { return empty_vec; }
void _ZNK7package9base_nameB5cxx11Ev(vstr_t *sret, void *p) { vs_make(sret, "pkg"); }
u8 _ZNK7package24convert_path_to_relativeERKNSt7__cxx1112basic_stringIcSt11char_traitsIcESaIcEEERS5_(void *p, vstr_t *in, vstr_t *out) { return 1; }
void _Z21maybe_erase_temp_dirsR7packageS0_R7options(void *a, void *b, void *o) { }
u8 _ZN7abigail12dwarf_reader22get_soname_of_elf_fileERKNSt7__cxx1112basic_stringIcSt11char_traitsIcESaIcEEERS6_(vstr_t *p, vstr_t *so) { return 0; }

/* vector<shared_ptr<T>>::push_back: contract model - block of 4 elements allocated on first use, element appended
   (libstdc++'s growth path makes the SAT instance explode); control blocks are null in this harness */
typedef struct { sp_t *b, *e, *cap; } spvec_t;
static void spvec_push(void *v_, void *x_)
{
  spvec_t *v = v_; sp_t *x = x_;
  if (!v->b) { v->b = malloc(4 * sizeof(sp_t)); __CPROVER_assume(v->b != 0); v->e = v->b; v->cap = v->b + 4; }
  __CPROVER_assert(v->e < v->cap, "BOUND: vector<shared_ptr> capacity"); __CPROVER_assume(v->e < v->cap);
  *v->e++ = *x;
}
void _ZNSt6vectorISt10shared_ptrI8elf_fileESaIS2_EE9push_backERKS2_(void *v, void *x) { spvec_push(v, x); }
void _ZNSt6vectorISt10shared_ptrIN7abigail7workers4taskEESaIS4_EE9push_backEOS4_(void *v, void *x) { spvec_push(v, x); }
static void map_init(mapobj *m) { m->cmp = 0; m->header.color = 0; m->header.parent = 0; m->header.left = &m->header; m->header.right = &m->header; m->count = 0; }
/* keys are inserted in increasing order: a right spine */
static void map_add(mapobj *m, mapnode *nd, const char *key, void *elf)
{
  vs_make(&nd->key, key); nd->val.p = elf; nd->val.c = 0;
  nd->n.color = 1; nd->n.left = 0; nd->n.right = 0;
  if (!m->header.parent) { nd->n.parent = &m->header; m->header.parent = &nd->n; m->header.left = &nd->n; }
  else { rbn *r = m->header.right; nd->n.parent = r; r->right = &nd->n; }
  m->header.right = &nd->n; m->count++;
}

void h_removed(void)
{
  __CPROVER_assert(w_sizeof(0) <= sizeof elf_mem[0] && w_sizeof(1) <= sizeof diff_mem && w_sizeof(2) <= sizeof opts_mem, "BOUND: harness buffers");
  static const char na[] = "a", nb[] = "b", nc[] = "c", pa[] = "/1/a";
  w_elf_init(elf_mem[0], pa, na, 0, 10); w_elf_init(elf_mem[1], pa, nb, 0, 20); w_elf_init(elf_mem[2], pa, nc, 0, 30);
  /* which binaries the packages hold is concrete per entry (TWO, HASC): with symbolic tree shapes the solver ran out
     of memory exploring the matched-pair branch, which these disjoint packages never take */
#ifndef TWO
#define TWO 1
#endif
#ifndef HASC
#define HASC 1
#endif
  _Bool two = TWO, has_c = HASC;
  map_init(&maps[0]); map_init(&maps[1]);
  map_add(&maps[0], &nodes[0][0], "a", elf_mem[0]);
  if (two) map_add(&maps[0], &nodes[0][1], "b", elf_mem[1]);
  if (has_c) map_add(&maps[1], &nodes[1][0], "c", elf_mem[2]);
  void *diff = w_diff_new(diff_mem);
  void *opts = w_opts_new(opts_mem);
  w_opts_set(opts, nondet_bool(), nondet_bool(), nondet_bool());
  u32 st = COMPARE((void *)pkg[0], (void *)pkg[1], diff, opts);
  PROP((st & 12u) == 12u, "C30-removed-binary-bits: a binary of the first package that is missing from the second gives the change and incompatible-change bits");
  PROP((st & ~15u) == 0 && !(st & 3u), "C30-status-lattice");
  PROP(w_diff_count(diff, 1) == (two ? 2u : 1u), "C30-removed-recorded: every missing binary is recorded as removed");
  PROP(w_diff_count(diff, 0) == (has_c ? 1u : 0u), "C30-added-recorded: binaries only in the second package are recorded as added");
  COVER(st != 0); COVER(st == 0 || st == 12);
  WITNESS_END();
}

/* the completion notifier over a sequence of finished tasks with arbitrary statuses */
static u64 task_mem[2][64], args_mem[2][512], notify_mem[8];
u8 *__dynamic_cast(u8 *p, u8 *src, u8 *dst, u64 hint) { return p; }   /* every task of the harness is a compare_task */
void h_notifier(void)
{
  __CPROVER_assert(w_sizeof(3) <= sizeof task_mem[0] && w_sizeof(4) <= sizeof args_mem[0] && w_sizeof(5) <= sizeof notify_mem, "BOUND: harness buffers");
  static const char na[] = "a", nb[] = "b", pa[] = "/1/a";
  w_elf_init(elf_mem[0], pa, na, 0, 10); w_elf_init(elf_mem[1], pa, nb, 0, 20);
  void *diff = w_diff_new(diff_mem);
  void *nt = w_notify_new(notify_mem, diff);
  u32 s0 = nondet_u32(), s1 = nondet_u32(); __CPROVER_assume(s0 <= 15 && s1 <= 15);
  u64 n = nondet_u64(); __CPROVER_assume(n <= 2);
  u32 acc = 0, changed = 0;
  for (u64 i = 0; i < 2; i++) if (i < n) {
    u32 s = i ? s1 : s0;
    w_task_init(task_mem[i], args_mem[i], (void *)elf_mem[i], s);
    sp_t *slot = w_task_args_slot(task_mem[i]); slot->p = args_mem[i]; slot->c = 0;
    sp_t t = { task_mem[i], 0 };
    w_notify_call(nt, (void *)&t);
    acc |= s; if (acc & 4u) changed++;
  }
  PROP(w_notify_status(nt) == acc, "C30-notifier-accumulates: the notifier's status is the union of all task statuses");
  PROP(w_diff_count(diff, 2) == changed, "C30-changed-binaries-recorded: a binary is recorded as changed once the accumulated status has the change bit");
  COVER(n == 2 && s0 == 0 && s1 == 4); COVER(n == 2 && s0 == 12 && s1 == 0);
  WITNESS_END();
}
