// tools/abipkgdiff.cc (copy generated on every run from the current tree, file-local functions given external
// linkage, main renamed abipkgdiff_main) + constructors/accessors for the C harness.
#include "abipkgdiff_ns.cc"
#include <new>
extern "C" {
unsigned long w_sizeof(int what) { return what == 0 ? sizeof(elf_file) : what == 1 ? sizeof(abi_diff) : what == 2 ? sizeof(options) : what == 3 ? sizeof(compare_task) : what == 4 ? sizeof(compare_args) : sizeof(comparison_done_notify); }
// an elf_file as the package scan would have created it (bypasses the constructor, which stats the file)
void w_elf_init(void* mem, const char* path, const char* name, int type, long size)
{
  elf_file* e = static_cast<elf_file*>(mem);
  new (&e->path) std::string(path); new (&e->name) std::string(name); new (&e->soname) std::string();
  e->size = size; e->type = static_cast<abigail::dwarf_reader::elf_type>(type);
}
abi_diff* w_diff_new(void* mem) { return new (mem) abi_diff; }
unsigned long w_diff_count(abi_diff* d, int which) { return which == 0 ? d->added_binaries.size() : which == 1 ? d->removed_binaries.size() : d->changed_binaries.size(); }
options* w_opts_new(void* mem) { return new (mem) options("abipkgdiff"); }
void w_opts_set(options* o, bool verbose, bool show_added, bool parallel) { o->verbose = verbose; o->show_added_binaries = show_added; o->parallel = parallel; }
comparison_done_notify* w_notify_new(void* mem, abi_diff* d) { return new (mem) comparison_done_notify(*d); }
unsigned w_notify_status(comparison_done_notify* n) { return n->status; }
void w_notify_call(comparison_done_notify* n, const task_sptr* t) { (*n)(*t); }
// a finished comparison task for elf file e with the given status (args and task built field by field)
void w_task_init(void* task_mem, void* args_mem, const elf_file* e, unsigned status)
{
  compare_task* t = new (task_mem) compare_task;
  compare_args* a = static_cast<compare_args*>(args_mem);
  new (const_cast<elf_file*>(&a->elf1)) elf_file(*e);
  t->status = static_cast<abidiff_status>(status);
}
// the harness stores {args pointer, null control block} here (a valid shared_ptr state without reference counting)
void* w_task_args_slot(void* task_mem) { return &static_cast<compare_task*>(task_mem)->args; }
}
