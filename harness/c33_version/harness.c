/* C33 - version attribute parsing: the real static function handle_version_attribute (src/abg-reader.cc)
   together with the real split_string (src/abg-tools-utils.cc) and xml_char_sptr_to_string
   (src/abg-libxml-utils.cc), run on an arbitrary value of the "version" attribute (absent, empty, or any
   NUL-free bytes up to NV).  libxml2's xmlTextReaderGetAttribute and corpus::set_format_*_version_number
   are contract stubs. */
#include "unit.h"
#include "verif.h"
typedef struct class_std____cxx11__basic_string vstr;
#define HVA _ZN7abigail10xml_readerL24handle_version_attributeERSt10shared_ptrI14_xmlTextReaderERNS_2ir6corpusE
#ifndef NV
#define NV 3
#endif
static u8 attr[NV + 1];
static u64 attr_len;
static int attr_present;
static u64 reader_dummy[8], corpus_dummy[64]; /* never dereferenced: the stubs ignore them */
static u8 maj[NV + 2], min_[NV + 2];
static u64 maj_len, min_len;
static int maj_calls, min_calls;

/* ---- contract stubs (used unchanged by the native replay against the real objects) ---- */
u8 *xmlTextReaderGetAttribute(void *reader, u8 *name)
{
  if (!attr_present) return 0;
  u8 *p = malloc(NV + 1);   /* the caller owns the string (xmlFree) */
  __CPROVER_assume(p != 0);
  for (u64 i = 0; i <= NV; i++) p[i] = i < attr_len ? attr[i] : 0;
  return p;
}
static void grab(vstr *s, u8 *dst, u64 *len)
{
  *len = s->f1;
  for (u64 i = 0; i < NV + 1; i++) if (i < s->f1) dst[i] = s->f0.f0[i];
}
void _ZN7abigail2ir6corpus31set_format_major_version_numberERKNSt7__cxx1112basic_stringIcSt11char_traitsIcESaIcEEE(void *c, vstr *s)
{ maj_calls++; grab(s, maj, &maj_len); }
void _ZN7abigail2ir6corpus31set_format_minor_version_numberERKNSt7__cxx1112basic_stringIcSt11char_traitsIcESaIcEEE(void *c, vstr *s)
{ min_calls++; grab(s, min_, &min_len); }
#ifndef VERIF_NATIVE_REAL
/* build_sptr<xmlChar>: ownership (control block + xmlFree deleter) is not modelled: a shared_ptr without
   control block that designates the string */
struct sp_view { void *p; void *cnt; };
void _ZN7abigail10sptr_utils10build_sptrIhEESt10shared_ptrIT_EPS3_(void *ret, u8 *p)
{ ((struct sp_view *)ret)->p = p; ((struct sp_view *)ret)->cnt = 0; }
#endif

void h_version(void)
{
  struct { void *p; void *cnt; } reader = { reader_dummy, 0 };
  maj_calls = min_calls = 0; maj_len = min_len = 0; /* (the native driver runs the entry many times) */
  attr_present = nondet_bool();
  attr_len = nondet_u64();
  __CPROVER_assume(attr_len <= NV);
  u64 ndots = 0;
  for (u64 i = 0; i < NV; i++)
    if (i < attr_len) { u8 c = nondet_u8(); __CPROVER_assume(c != 0); attr[i] = c; if (c == '.') ndots++; }
  HVA((void *)&reader, (void *)corpus_dummy);
  /* reaching this point without a failed memory-safety / model assertion is the property; plus: */
  PROP(maj_calls == 1 && min_calls == 1, "C33-version-set-once: both version numbers are set exactly once");
  if (!attr_present || attr_len == 0) {
    PROP(maj_len == 1 && maj[0] == '1' && min_len == 1 && min_[0] == '0', "C33-version-default: absent or empty version attribute means 1.0");
  } else if (attr_len == 3 && attr[1] == '.' && attr[0] > ' ' && attr[0] != '.' && attr[2] > ' ' && attr[2] != '.') {
    PROP(maj_len == 1 && maj[0] == attr[0] && min_len == 1 && min_[0] == attr[2], "C33-version-split: \"M.m\" gives major M and minor m");
  }
  COVER(attr_present && attr_len == NV && ndots == 0);
  COVER(attr_present && attr_len > 0 && ndots == attr_len);
  COVER(attr_present && attr_len == 3 && attr[1] == '.' && attr[0] == '2');
  COVER(!attr_present);
  WITNESS_END();
}
