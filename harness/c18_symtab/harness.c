/* symtab::load_(Elf*, environment*, symbol_predicate) (src/abg-symtab-reader.cc) - the real loop over the ELF symbol
   table - together with the real stt_/stb_/stv_ mappings (src/abg-elf-helpers.cc), the real elf_symbol::create and
   elf_symbol accessors/predicates (src/abg-ir.cc), the real symtab::lookup_symbol, make_filter and
   symtab_filter::matches, on the real libstdc++ unordered containers.  libelf is replaced by contract stubs over an
   ARBITRARY symbol table of NSYM entries: every st_info / st_other / st_shndx / st_value / st_size value, names drawn
   from {null, "", "f", "g", "__ksymtab_f", "__ksymtab_g", "__crc_f"}, kernel or not.
   C18: the recorded symbols are exactly the FUNC/IFUNC/TLS/OBJECT(non-ABS) symbols with a name, with the attributes
        of their ELF entries; the default filter selects exactly the public (defined, global/weak/unique,
        default/protected) ones.
   C28: for a kernel binary the default filter additionally requires the symbol to be exported through __ksymtab_.
   C34: no abort / invalid access for any symbol table contents. */
#include "unit.h"
#include "verif.h"
#ifndef NSYM
#define NSYM 2
#endif
#define LOAD _ZN7abigail13symtab_reader6symtab5load_EP3ElfPNS_2ir11environmentESt8functionIFbRKSt10shared_ptrINS4_10elf_symbolEEEE
#define CTOR _ZN7abigail13symtab_reader6symtabC2Ev
#define LOOKUP _ZNK7abigail13symtab_reader6symtab13lookup_symbolERKNSt7__cxx1112basic_stringIcSt11char_traitsIcESaIcEEE
#define MKFILTER _ZNK7abigail13symtab_reader6symtab11make_filterEv
#define MATCHES _ZNK7abigail13symtab_reader13symtab_filter7matchesERKNS_2ir10elf_symbolE
#define ES(n) _ZNK7abigail2ir10elf_symbol##n
typedef struct class_std____cxx11__basic_string vstr_t;
typedef struct { void *p, *c; } sp_t;
typedef struct { sp_t *b, *e, *cap; } spvec_t;

static struct struct_Elf64_Sym sy[NSYM];
static u8 namesel[NSYM];
static _Bool getsym_fails[NSYM];
static _Bool is_kernel, have_scn, have_data;
static u64 sh_entsize, nsyms;
static u64 elf_dummy[4], scn_dummy[4], env_dummy[4];
static struct struct_Elf_Data data_dummy;
static const char *const names[7] = { 0, "", "f", "g", "__ksymtab_f", "__ksymtab_g", "__crc_f" };

/* ---- std::unordered_{set,map} keyed by std::string: LIST MODEL of the out-of-line/_Hashtable members -------------
   The containers keep the real libstdc++ object and node layout ({next, value, hash code}; list head in
   _M_before_begin), so the real inline iterator code (operator++, operator*, ->) runs on them; lookup is a linear
   search by key content, insertion appends when the key is absent.  (The real _Hashtable code over these
   instantiations is checked under C42; here it made the solver run out of memory.) */
typedef struct hl_node { struct hl_node *next; vstr_t key; } hl_node;     /* the value starts with its key */
static hl_node **hl_head(void *tbl) { return (hl_node **)((u8 *)tbl + 16); }
static u64 *hl_count(void *tbl) { return (u64 *)((u8 *)tbl + 24); }
static hl_node *hl_find(void *tbl, vstr_t *k)
{
  hl_node *n = *hl_head(tbl);
  for (int i = 0; i < NSYM + 2 && n; i++) { if (vs_eq(&n->key, k)) return n; n = n->next; }
  __CPROVER_assert(n == 0, "BOUND: hash list longer than NSYM + 2");
  return 0;
}
static hl_node *hl_append(void *tbl, vstr_t *k, u64 value_size)
{
  hl_node *n = value_size <= 32 ? malloc(8 + 32 + 8) : value_size <= 40 ? malloc(8 + 40 + 8) : malloc(8 + 56 + 8);
  __CPROVER_assume(n != 0);
  memset(n, 0, 8 + value_size + 8);
  vs_make_n(&n->key, k->f0.f0, k->f1);
  hl_node **p = hl_head(tbl);
  for (int i = 0; i < NSYM + 2 && *p; i++) p = &(*p)->next;
  __CPROVER_assert(*p == 0, "BOUND: hash list longer than NSYM + 2");
  *p = n; (*hl_count(tbl))++;
  return n;
}
void *_ZNKSt10_HashtableINSt7__cxx1112basic_stringIcSt11char_traitsIcESaIcEEESt4pairIKS5_St6vectorISt10shared_ptrIN7abigail2ir10elf_symbolEESaISD_EEESaISG_ENSt8__detail10_Select1stESt8equal_toIS5_ESt4hashIS5_ENSI_18_Mod_range_hashingENSI_20_Default_ranged_hashENSI_20_Prime_rehash_policyENSI_17_Hashtable_traitsILb1ELb0ELb1EEEE3endEv(void *t) { return 0; }
void *_ZNKSt10_HashtableINSt7__cxx1112basic_stringIcSt11char_traitsIcESaIcEEESt4pairIKS5_St6vectorISt10shared_ptrIN7abigail2ir10elf_symbolEESaISD_EEESaISG_ENSt8__detail10_Select1stESt8equal_toIS5_ESt4hashIS5_ENSI_18_Mod_range_hashingENSI_20_Default_ranged_hashENSI_20_Prime_rehash_policyENSI_17_Hashtable_traitsILb1ELb0ELb1EEEE4findERS7_(void *t, vstr_t *k) { return hl_find(t, k); }
void *_ZNSt10_HashtableINSt7__cxx1112basic_stringIcSt11char_traitsIcESaIcEEES5_SaIS5_ENSt8__detail9_IdentityESt8equal_toIS5_ESt4hashIS5_ENS7_18_Mod_range_hashingENS7_20_Default_ranged_hashENS7_20_Prime_rehash_policyENS7_17_Hashtable_traitsILb1ELb1ELb1EEEE3endEv(void *t) { return 0; }
void *_ZNSt10_HashtableINSt7__cxx1112basic_stringIcSt11char_traitsIcESaIcEEES5_SaIS5_ENSt8__detail9_IdentityESt8equal_toIS5_ESt4hashIS5_ENS7_18_Mod_range_hashingENS7_20_Default_ranged_hashENS7_20_Prime_rehash_policyENS7_17_Hashtable_traitsILb1ELb1ELb1EEEE5beginEv(void *t) { return *hl_head(t); }
RET__ZNSt10_HashtableINSt7__cxx1112basic_stringIcSt11char_traitsIcESaIcEEES5_SaIS5_ENSt8__detail9_IdentityESt8equal_toIS5_ESt4hashIS5_ENS7_18_Mod_range_hashingENS7_20_Default_ranged_hashENS7_20_Prime_rehash_policyENS7_17_Hashtable_traitsILb1ELb1ELb1EEEE9_M_insertIS5_NS7_10_AllocNodeISaINS7_10_Hash_nodeIS5_Lb1EEEEEEEESt4pairINS7_14_Node_iteratorIS5_Lb1ELb1EEEbEOT_RKT0_St17integral_constantIbLb1EE _ZNSt10_HashtableINSt7__cxx1112basic_stringIcSt11char_traitsIcESaIcEEES5_SaIS5_ENSt8__detail9_IdentityESt8equal_toIS5_ESt4hashIS5_ENS7_18_Mod_range_hashingENS7_20_Default_ranged_hashENS7_20_Prime_rehash_policyENS7_17_Hashtable_traitsILb1ELb1ELb1EEEE9_M_insertIS5_NS7_10_AllocNodeISaINS7_10_Hash_nodeIS5_Lb1EEEEEEEESt4pairINS7_14_Node_iteratorIS5_Lb1ELb1EEEbEOT_RKT0_St17integral_constantIbLb1EE(void *t, vstr_t *k, void *alloc)
{ RET__ZNSt10_HashtableINSt7__cxx1112basic_stringIcSt11char_traitsIcESaIcEEES5_SaIS5_ENSt8__detail9_IdentityESt8equal_toIS5_ESt4hashIS5_ENS7_18_Mod_range_hashingENS7_20_Default_ranged_hashENS7_20_Prime_rehash_policyENS7_17_Hashtable_traitsILb1ELb1ELb1EEEE9_M_insertIS5_NS7_10_AllocNodeISaINS7_10_Hash_nodeIS5_Lb1EEEEEEEESt4pairINS7_14_Node_iteratorIS5_Lb1ELb1EEEbEOT_RKT0_St17integral_constantIbLb1EE r; hl_node *n = hl_find(t, k); r.f1 = n == 0; if (!n) n = hl_append(t, k, 32); r.f0 = (void *)n; return r; }
void *_ZNSt10_HashtableINSt7__cxx1112basic_stringIcSt11char_traitsIcESaIcEEESt4pairIKS5_St6vectorISt10shared_ptrIN7abigail2ir10elf_symbolEESaISD_EEESaISG_ENSt8__detail10_Select1stESt8equal_toIS5_ESt4hashIS5_ENSI_18_Mod_range_hashingENSI_20_Default_ranged_hashENSI_20_Prime_rehash_policyENSI_17_Hashtable_traitsILb1ELb0ELb1EEEE3endEv(void *t) { return 0; }
void *_ZNSt10_HashtableINSt7__cxx1112basic_stringIcSt11char_traitsIcESaIcEEESt4pairIKS5_St6vectorISt10shared_ptrIN7abigail2ir10elf_symbolEESaISD_EEESaISG_ENSt8__detail10_Select1stESt8equal_toIS5_ESt4hashIS5_ENSI_18_Mod_range_hashingENSI_20_Default_ranged_hashENSI_20_Prime_rehash_policyENSI_17_Hashtable_traitsILb1ELb0ELb1EEEE4findERS7_(void *t, vstr_t *k) { return hl_find(t, k); }
void *_ZNSt10_HashtableINSt7__cxx1112basic_stringIcSt11char_traitsIcESaIcEEESt4pairIKS5_mESaIS8_ENSt8__detail10_Select1stESt8equal_toIS5_ESt4hashIS5_ENSA_18_Mod_range_hashingENSA_20_Default_ranged_hashENSA_20_Prime_rehash_policyENSA_17_Hashtable_traitsILb1ELb0ELb1EEEE3endEv(void *t) { return 0; }
void *_ZNSt10_HashtableINSt7__cxx1112basic_stringIcSt11char_traitsIcESaIcEEESt4pairIKS5_mESaIS8_ENSt8__detail10_Select1stESt8equal_toIS5_ESt4hashIS5_ENSA_18_Mod_range_hashingENSA_20_Default_ranged_hashENSA_20_Prime_rehash_policyENSA_17_Hashtable_traitsILb1ELb0ELb1EEEE5beginEv(void *t) { return *hl_head(t); }
RET__ZNSt10_HashtableINSt7__cxx1112basic_stringIcSt11char_traitsIcESaIcEEESt4pairIKS5_mESaIS8_ENSt8__detail10_Select1stESt8equal_toIS5_ESt4hashIS5_ENSA_18_Mod_range_hashingENSA_20_Default_ranged_hashENSA_20_Prime_rehash_policyENSA_17_Hashtable_traitsILb1ELb0ELb1EEEE7emplaceIJS5_RmEEES6_INSA_14_Node_iteratorIS8_Lb0ELb1EEEbEDpOT_ _ZNSt10_HashtableINSt7__cxx1112basic_stringIcSt11char_traitsIcESaIcEEESt4pairIKS5_mESaIS8_ENSt8__detail10_Select1stESt8equal_toIS5_ESt4hashIS5_ENSA_18_Mod_range_hashingENSA_20_Default_ranged_hashENSA_20_Prime_rehash_policyENSA_17_Hashtable_traitsILb1ELb0ELb1EEEE7emplaceIJS5_RmEEES6_INSA_14_Node_iteratorIS8_Lb0ELb1EEEbEDpOT_(void *t, vstr_t *k, u64 *v)
{ RET__ZNSt10_HashtableINSt7__cxx1112basic_stringIcSt11char_traitsIcESaIcEEESt4pairIKS5_mESaIS8_ENSt8__detail10_Select1stESt8equal_toIS5_ESt4hashIS5_ENSA_18_Mod_range_hashingENSA_20_Default_ranged_hashENSA_20_Prime_rehash_policyENSA_17_Hashtable_traitsILb1ELb0ELb1EEEE7emplaceIJS5_RmEEES6_INSA_14_Node_iteratorIS8_Lb0ELb1EEEbEDpOT_ r; hl_node *n = hl_find(t, k); r.f1 = n == 0; if (!n) { n = hl_append(t, k, 40); *(u64 *)((u8 *)n + 8 + 32) = *v; } r.f0 = (void *)n; return r; }
void _ZNSt13unordered_mapINSt7__cxx1112basic_stringIcSt11char_traitsIcESaIcEEESt6vectorISt10shared_ptrIN7abigail2ir10elf_symbolEESaISB_EESt4hashIS5_ESt8equal_toIS5_ESaISt4pairIKS5_SD_EEEC2Ev(void *t) { memset(t, 0, 56); }
void _ZNSt13unordered_mapINSt7__cxx1112basic_stringIcSt11char_traitsIcESaIcEEEmSt4hashIS5_ESt8equal_toIS5_ESaISt4pairIKS5_mEEEC2Ev(void *t) { memset(t, 0, 56); }
void _ZNSt13unordered_mapINSt7__cxx1112basic_stringIcSt11char_traitsIcESaIcEEEmSt4hashIS5_ESt8equal_toIS5_ESaISt4pairIKS5_mEEED2Ev(void *t) { }
void _ZNSt13unordered_mapImSt10shared_ptrIN7abigail2ir10elf_symbolEESt4hashImESt8equal_toImESaISt4pairIKmS4_EEEC2Ev(void *t) { memset(t, 0, 56); }
void _ZNSt13unordered_setINSt7__cxx1112basic_stringIcSt11char_traitsIcESaIcEEESt4hashIS5_ESt8equal_toIS5_ESaIS5_EEC2Ev(void *t) { memset(t, 0, 56); }
void _ZNSt13unordered_setINSt7__cxx1112basic_stringIcSt11char_traitsIcESaIcEEESt4hashIS5_ESt8equal_toIS5_ESaIS5_EED2Ev(void *t) { }
void *_ZNSt8__detail9_Map_baseINSt7__cxx1112basic_stringIcSt11char_traitsIcESaIcEEESt4pairIKS6_St6vectorISt10shared_ptrIN7abigail2ir10elf_symbolEESaISE_EEESaISH_ENS_10_Select1stESt8equal_toIS6_ESt4hashIS6_ENS_18_Mod_range_hashingENS_20_Default_ranged_hashENS_20_Prime_rehash_policyENS_17_Hashtable_traitsILb1ELb0ELb1EEELb1EEixERS8_(void *t, vstr_t *k)
{ hl_node *n = hl_find(t, k); if (!n) n = hl_append(t, k, 56); return (u8 *)n + 8 + 32; }   /* operator[]: reference to the mapped vector */

/* vector<elf_symbol_sptr>::push_back(const value_type&): contract model - a block of VCAP elements allocated on first
   use, the element (pointer + control block, which is null for every symbol of this harness) appended.
   (libstdc++'s _M_realloc_insert growth path makes the SAT instance exceed the memory limit.) */
#define VCAP (NSYM + 1)
void _ZNSt6vectorISt10shared_ptrIN7abigail2ir10elf_symbolEESaIS4_EE9push_backERKS4_(void *v_, void *x_)
{
  spvec_t *v = v_; sp_t *x = x_;
  if (!v->b) { v->b = malloc(VCAP * sizeof(sp_t)); __CPROVER_assume(v->b != 0); v->e = v->b; v->cap = v->b + VCAP; }
  __CPROVER_assert(v->e < v->cap, "BOUND: vector<elf_symbol_sptr> capacity"); __CPROVER_assume(v->e < v->cap);
  __CPROVER_assert(x->c == 0, "BOUND: symbol shared_ptr with a control block");
  *v->e++ = *x;
}
/* ---- libelf / elf_helpers contract stubs ---- */
void *_ZN7abigail11elf_helpers25find_symbol_table_sectionEP3Elf(void *elf) { return have_scn ? (void *)scn_dummy : 0; }
u8 _ZN7abigail11elf_helpers15is_linux_kernelEP3Elf(void *elf) { return is_kernel; }
u8 _ZN7abigail11elf_helpers22get_version_for_symbolEP3ElfmbRNS_2ir10elf_symbol7versionE(void *elf, u64 i, u8 def, void *ver) { return 0; }
u64 _ZN7abigail13symtab_reader6symtab26setup_symbol_lookup_tablesEP3ElfP9Elf64_SymRKSt10shared_ptrINS_2ir10elf_symbolEE(void *t, void *elf, void *sym, void *s) { return 0; }
void _ZN7abigail13symtab_reader6symtab31add_alternative_address_lookupsEP3Elf(void *t, void *elf) { }
void _ZN7abigail2ir10elf_symbol19add_common_instanceERKSt10shared_ptrIS1_E(void *s, void *o) { }
/* elf_symbol::create = construct + make_shared + set main_symbol_: the REAL constructor runs on harness memory and
   the shared_ptr is handed out with a null control block (valid state without reference counting) */
static u64 symobj[NSYM + 1][2]; static u32 nsymobj;
void _ZN7abigail2ir10elf_symbol6createEPKNS0_11environmentEmmRKNSt7__cxx1112basic_stringIcSt11char_traitsIcESaIcEEENS1_4typeENS1_7bindingEbbRKNS1_7versionENS1_10visibilityEbmb(
    void *sret, void *e, u64 i, u64 s, vstr_t *n, u32 t, u32 b, u8 d, u8 c, void *ve, u32 vi, u8 ks, u64 crc, u8 supp)
{
  __CPROVER_assert(nsymobj < NSYM + 1, "BOUND: more symbols created than entries"); __CPROVER_assume(nsymobj < NSYM + 1);
  void *o = symobj[nsymobj++];
  _ZN7abigail2ir10elf_symbolC2EPKNS0_11environmentEmmRKNSt7__cxx1112basic_stringIcSt11char_traitsIcESaIcEEENS1_4typeENS1_7bindingEbbRKNS1_7versionENS1_10visibilityEbmb(o, e, i, s, n, t, b, d, c, ve, vi, ks, crc, supp);
  sp_t *r = sret; r->p = o; r->c = 0;
}
void *gelf_getshdr(void *scn, void *dst_)
{
  struct struct_Elf64_Shdr *dst = dst_;
  memset(dst, 0, sizeof *dst);
  dst->f5 = nsyms * sh_entsize;   /* sh_size */
  dst->f6 = 7;                    /* sh_link */
  dst->f9 = sh_entsize;
  return dst;
}
void *elf_getdata(void *scn, void *prev) { return have_data ? (void *)&data_dummy : 0; }
void *gelf_getsym(void *data, u32 i, void *dst_)
{
  struct struct_Elf64_Sym *dst = dst_;
  __CPROVER_assert(i < NSYM, "BOUND: gelf_getsym index");
  __CPROVER_assume(i < NSYM);
  if (getsym_fails[i]) return 0;
  *dst = sy[i];
  return dst;
}
u8 *elf_strptr(void *elf, u64 link, u64 off) { return off < NSYM ? (u8 *)names[namesel[off]] : 0; }

static int type_ok(int i) { u8 t = sy[i].f1 & 15; return t == 2 || t == 10 || t == 6 || (t == 1 && sy[i].f3 != 0xfff1); }
static int name_is(int i, int which) { return namesel[i] == which; }
static int recorded(int i)
{
  if (namesel[i] < 2) return 0;                       /* no name, no game */
  if (is_kernel && namesel[i] >= 4) return 0;         /* __ksymtab_ / __crc_ entries describe other symbols */
  { u8 b = sy[i].f1 >> 4; if (!(b == 0 || b == 1 || b == 2 || b == 10)) return 0; }   /* unknown binding: not recorded */
  return type_ok(i);
}
static u32 exp_type(u8 stt) { switch (stt) { case 0: return 0; case 1: return 1; case 2: return 2; case 3: return 3; case 4: return 4; case 5: return 5; case 6: return 6; default: return 7; } }
/* STV_DEFAULT 0, STV_INTERNAL 1, STV_HIDDEN 2, STV_PROTECTED 3 -> DEFAULT 0, PROTECTED 1, HIDDEN 2, INTERNAL 3 */
static u32 exp_vis(u8 stv) { return stv == 0 ? 0 : stv == 1 ? 3 : stv == 2 ? 2 : 1; }
static u32 exp_binding(u8 stb) { return stb == 0 ? 0 : stb == 1 ? 1 : stb == 2 ? 2 : 3; }

void h_load(void)
{
  static struct class_abigail__symtab_reader__symtab tab;
  static u64 pred[4];            /* empty std::function: no suppression predicate */
  memset(&tab, 0, sizeof tab); memset(pred, 0, sizeof pred); nsymobj = 0;
  is_kernel = nondet_bool(); have_scn = nondet_bool(); have_data = nondet_bool();
  /* the entry size is 0 (bogus header: must be rejected) or sizeof(Elf64_Sym); the table has exactly NSYM entries
     (shorter tables are covered by the runs with a smaller NSYM) - concrete so that the loop bound is exact */
  sh_entsize = nondet_bool() ? 0 : 24;
  nsyms = NSYM;
  for (int i = 0; i < NSYM; i++) {
    sy[i].f0 = i; sy[i].f1 = nondet_u8(); sy[i].f2 = nondet_u8(); sy[i].f3 = nondet_u16(); sy[i].f4 = nondet_u64(); sy[i].f5 = nondet_u64();
    namesel[i] = nondet_u8(); __CPROVER_assume(namesel[i] < 7);
    getsym_fails[i] = nondet_bool();
    /* bindings the ELF gABI / GNU define: LOCAL, GLOBAL, WEAK, GNU_UNIQUE(10).  Other values are the C34 finding below */
#ifndef ALLOW_UNKNOWN_BINDING
    { u8 b = sy[i].f1 >> 4; __CPROVER_assume(b == 0 || b == 1 || b == 2 || b == 10); }
#endif
  }
#ifndef ALLOW_DUPLICATE_KSYMTAB
  /* a kernel symbol table lists each __ksymtab_<name> / __crc_<name> entry once */
  for (int i = 0; i < NSYM; i++) for (int j = 0; j < i; j++) __CPROVER_assume(!(namesel[i] >= 4 && namesel[i] == namesel[j]));
#endif
#ifdef KSYM_CONCRETE
  /* entry 0 is __ksymtab_f, entry 1 is f (names concrete, everything else about the entries symbolic) */
  namesel[0] = 4; namesel[1] = 2; getsym_fails[0] = getsym_fails[1] = 0; have_scn = have_data = 1; sh_entsize = 24;
#if NSYM > 2
  /* ... and entry 2 is a second symbol named f (a static helper and an exported global of the same name: .symtab lists
     locals first, in any case both orders are explored since binding and visibility of each entry are symbolic);
     addresses and sizes concrete */
  namesel[2] = 2; getsym_fails[2] = 0;
  /* what the ksymtab marking does not depend on is concrete: a kernel binary, FUNC symbols defined in section 1, address 0,
     size 8; binding (LOCAL/GLOBAL/WEAK/GNU_UNIQUE) and visibility of every entry stay symbolic */
  is_kernel = 1;
  for (int i = 0; i < NSYM; i++) { sy[i].f4 = 0; sy[i].f5 = 8; sy[i].f3 = 1; sy[i].f1 = (sy[i].f1 & 0xf0) | 2; sy[i].f2 &= 3; }
#endif
#endif
#ifdef KSYM_FOCUS
  /* the __ksymtab_ interplay needs two entries: everything the ksymtab marking does not depend on is concrete */
  __CPROVER_assume(is_kernel && have_scn && have_data && sh_entsize == 24);
  for (int i = 0; i < NSYM; i++) {
    __CPROVER_assume((namesel[i] == 2 || namesel[i] == 4) && !getsym_fails[i]);
    sy[i].f4 = 0; sy[i].f5 = 8;
  }
#endif
#ifdef DBG_PATH
  if (DBG_PATH == 1) __CPROVER_assume(!have_scn);
  if (DBG_PATH == 2) __CPROVER_assume(nsyms == 0);
  if (DBG_PATH == 3) __CPROVER_assume(nsyms == 1 && namesel[0] == 0);
  if (DBG_PATH == 4) __CPROVER_assume(nsyms == 1 && namesel[0] == 2 && (sy[0].f1 & 15) == 0);
  if (DBG_PATH == 5) __CPROVER_assume(nsyms == 1 && namesel[0] == 2 && !is_kernel);
  if (DBG_PATH == 6) __CPROVER_assume(nsyms == 1 && !is_kernel);
  if (DBG_PATH == 7) __CPROVER_assume(nsyms == 0 && !is_kernel);
  if (DBG_PATH == 8) __CPROVER_assume(nsyms == 0 && is_kernel);
#endif
  CTOR(&tab);
  u8 ok = LOAD(&tab, (void *)elf_dummy, (void *)env_dummy, (void *)pred);

  int any_getsym_failure = 0;
  for (int i = 0; i < NSYM; i++) if (i < nsyms && getsym_fails[i]) any_getsym_failure = 1;
  PROP(ok == (have_scn && sh_entsize != 0 && have_data && !any_getsym_failure),
       "C34-load-result: loading succeeds exactly when the symbol table section, a non-zero entry size, its data and every entry are readable");
  if (ok) {
    static const char *const look[2] = { "f", "g" };
    for (int w = 0; w < 2; w++) {
      vstr_t nm; vs_make(&nm, look[w]);
      spvec_t *v = LOOKUP(&tab, &nm);
      u64 got = v->b ? (u64)(v->e - v->b) : 0, want = 0;
      for (int i = 0; i < NSYM; i++) if (i < nsyms && recorded(i) && name_is(i, 2 + w)) want++;
      PROP(got == want, "C18-recorded-iff: exactly the FUNC/IFUNC/TLS/OBJECT(non-absolute) entries with that name are recorded (kernel: except __ksymtab_/__crc_ entries)");
      u64 k = 0;
      for (int i = 0; i < NSYM; i++) {
        if (!(i < nsyms && recorded(i) && name_is(i, 2 + w)) || k >= got) continue;
        void *s = v->b[k++].p;
        int attrs = ES(9get_indexEv)(s) == (u64)i && ES(8get_sizeEv)(s) == sy[i].f5
                    && ES(8get_typeEv)(s) == exp_type(sy[i].f1 & 15) && ES(11get_bindingEv)(s) == exp_binding(sy[i].f1 >> 4)
                    && ES(14get_visibilityEv)(s) == exp_vis(sy[i].f2 & 3)
                    && (ES(10is_definedEv)(s) != 0) == (sy[i].f3 != 0) && (ES(16is_common_symbolEv)(s) != 0) == (sy[i].f3 == 0xfff2)
                    && vs_eq_lit(ES(8get_nameB5cxx11Ev)(s), look[w]);
        PROP(attrs, "C18-attributes: index, size, name, type, binding, visibility, defined-ness and common-ness are those of the ELF entry");
        u8 b = sy[i].f1 >> 4, vis = sy[i].f2 & 3;
        int pub = sy[i].f3 != 0 && (b == 1 || b == 2 || b == 10) && (vis == 0 || vis == 3);
        PROP((ES(9is_publicEv)(s) != 0) == pub, "C18-public: public means defined, GLOBAL/WEAK/GNU_UNIQUE binding, DEFAULT/PROTECTED visibility");
        int exported = 0;
        for (int j = 0; j < NSYM; j++) if (j < nsyms && namesel[j] == 4 + w) exported = 1;
        PROP((ES(13is_in_ksymtabEv)(s) != 0) == (is_kernel && exported && pub), "C28-ksymtab-flag: a symbol is marked as exported through ksymtab exactly when the binary is a kernel, it is public and a __ksymtab_<name> entry exists");
        /* the default filter of this symtab */
        struct class_abigail__symtab_reader__symtab_filter flt;
        __typeof__(MKFILTER(&tab)) fr = MKFILTER(&tab);     /* five optional<bool> returned in registers */
        memcpy(&flt, &fr, sizeof flt);
        u8 m = MATCHES(&flt, s);
        PROP((m != 0) == (pub && (!is_kernel || exported)), "C28-default-filter: the default filter keeps public symbols, and for a kernel binary only those exported through ksymtab");
      }
    }
  }
#if !(defined(KSYM_CONCRETE) && NSYM > 2)   /* (three-entry run: a kernel binary, entry 0 is a __ksymtab_ marker, never recorded) */
  COVER(ok && nsyms == NSYM && recorded(0) && recorded(NSYM - 1));
#endif
  COVER(NSYM < 2 || (ok && is_kernel && namesel[0] == 4 && namesel[NSYM - 1] == 2 && recorded(NSYM - 1)));
#ifndef KSYM_CONCRETE
  COVER(ok && nsyms > 0 && !recorded(0) && namesel[0] == 2); COVER(!ok && have_scn && have_data && sh_entsize);
#else
  COVER(ok && is_kernel && recorded(1));
#if NSYM <= 2
  COVER(ok && !is_kernel);
#else
  COVER(ok && recorded(1) && recorded(2) && (sy[1].f1 >> 4) == 0 && (sy[2].f1 >> 4) == 1);
#endif
#endif
  WITNESS_END();
}
