/* Verdict functions over ARBITRARY diff statistics AND arbitrary diff-context display options
   (C13 leaf vs default reporter, C19 symbol-only statistics, C05 removed interfaces, C10 net counters).
   Real code: corpus_diff::has_incompatible_changes / has_net_subtype_changes, default_reporter:: and
   leaf_reporter::diff_has_net_changes, every diff_stats accessor (net_*, num_*_filtered_out with their
   diff_context::show_* option tests), the diff_context::show_* getters over a symbolic diff_context::priv.
   Stubs: apply_filters_and_suppressions_before_reporting returns the symbolic statistics;
   diff_stats::priv::ctxt() returns the (possibly expired) context; soname/architecture_changed arbitrary. */
#include "unit.h"
#include "verif.h"
#define HAS_INCOMPAT _ZNK7abigail10comparison11corpus_diff24has_incompatible_changesEv
#define HAS_SUBTYPE _ZNK7abigail10comparison11corpus_diff23has_net_subtype_changesEv
#define NET_DEFAULT _ZNK7abigail10comparison16default_reporter20diff_has_net_changesEPKNS0_11corpus_diffE
#define NET_LEAF _ZNK7abigail10comparison13leaf_reporter20diff_has_net_changesEPKNS0_11corpus_diffE
#define ST(n) _ZNK7abigail10comparison11corpus_diff10diff_stats##n
#define CTX(n) _ZNK7abigail10comparison12diff_context##n
typedef struct struct_abigail__comparison__corpus_diff__diff_stats__priv stats_priv;
typedef struct struct_abigail__comparison__diff_context__priv ctx_priv;

static stats_priv sp;
static struct { stats_priv *p; } stats;           /* diff_stats == { unique_ptr<priv> } */
static ctx_priv cp;
static struct { ctx_priv *p; } ctx;               /* diff_context == { unique_ptr<priv> } */
static _Bool ctx_alive;
static u64 diff_dummy[64], reporter_dummy[8];
static _Bool soname_chg, arch_chg;

/* ---- contract stubs ---- */
void *
_ZN7abigail10comparison11corpus_diff47apply_filters_and_suppressions_before_reportingEv(void *d)
{ return (struct class_abigail__comparison__corpus_diff__diff_stats *)&stats; }
u8 _ZNK7abigail10comparison11corpus_diff14soname_changedEv(void *d) { return soname_chg; }
u8 _ZNK7abigail10comparison11corpus_diff20architecture_changedEv(void *d) { return arch_chg; }
/* diff_stats::priv::ctxt(): weak_ptr::lock(); an expired context gives a null shared_ptr.  The shared_ptr has a
   null control block (valid state, no reference counting to model) */
void _ZN7abigail10comparison11corpus_diff10diff_stats4priv4ctxtEv(void *sret, void *self)
{ void **r = sret; r[0] = ctx_alive ? (void *)&ctx : 0; r[1] = 0; }

static u64 T[17], F[17], N[17];   /* totals, raw filtered, expected nets */
enum { F_RM, F_ADD, F_CHG, V_RM, V_ADD, V_CHG, FS_RM, FS_ADD, VS_RM, VS_ADD, LEAF, LEAF_T, LEAF_F, LEAF_V, UT_ADD, UT_RM, UT_CHG };
static u64 virt;
static _Bool o_del_f, o_add_f, o_del_v, o_add_v, o_syms, o_add_syms;

static void setup(int with_ctx_options)
{
  memset(&sp, 0, sizeof sp); memset(&cp, 0, sizeof cp);
  stats.p = &sp; ctx.p = &cp;
  soname_chg = nondet_bool(); arch_chg = nondet_bool();
  for (int i = 0; i < 17; i++) {
    T[i] = nondet_u64(); F[i] = nondet_u64();
    __CPROVER_assume(F[i] <= T[i]);   /* what apply_filters_and_compute_diff_stats establishes; the accessors ABG_ASSERT it */
  }
  virt = nondet_u64();
  sp.f1 = T[F_RM]; sp.f2 = F[F_RM]; sp.f3 = T[F_ADD]; sp.f4 = F[F_ADD]; sp.f5 = T[F_CHG]; sp.f6 = F[F_CHG];
  sp.f7 = virt;
  sp.f8 = T[V_RM]; sp.f9 = F[V_RM]; sp.f10 = T[V_ADD]; sp.f11 = F[V_ADD]; sp.f12 = T[V_CHG]; sp.f13 = F[V_CHG];
  sp.f14 = T[FS_RM]; sp.f15 = F[FS_RM]; sp.f16 = T[FS_ADD]; sp.f17 = F[FS_ADD];
  sp.f18 = T[VS_RM]; sp.f19 = F[VS_RM]; sp.f20 = T[VS_ADD]; sp.f21 = F[VS_ADD];
  sp.f22 = T[LEAF]; sp.f23 = F[LEAF]; sp.f24 = T[LEAF_T]; sp.f25 = F[LEAF_T];
  sp.f26 = T[LEAF_F]; sp.f27 = F[LEAF_F]; sp.f28 = T[LEAF_V]; sp.f29 = F[LEAF_V];
  sp.f30 = T[UT_ADD]; sp.f31 = F[UT_ADD]; sp.f32 = T[UT_RM]; sp.f33 = F[UT_RM]; sp.f34 = T[UT_CHG]; sp.f35 = F[UT_CHG];
  ctx_alive = with_ctx_options ? nondet_bool() : 0;
  if (with_ctx_options) {
    /* every boolean option of the context is arbitrary */
    u8 *b = &cp.f12;
    for (int i = 0; i < 24; i++) b[i] = nondet_bool();
  }
  /* the options as the REAL getters read them */
  o_del_f = CTX(16show_deleted_fnsEv)((void *)&ctx); o_add_f = CTX(14show_added_fnsEv)((void *)&ctx);
  o_del_v = CTX(17show_deleted_varsEv)((void *)&ctx); o_add_v = CTX(15show_added_varsEv)((void *)&ctx);
  o_syms = CTX(39show_symbols_unreferenced_by_debug_infoEv)((void *)&ctx);
  o_add_syms = CTX(45show_added_symbols_unreferenced_by_debug_infoEv)((void *)&ctx);
  for (int i = 0; i < 17; i++) N[i] = T[i] - F[i];
  if (ctx_alive) {
    /* documented meaning of the display options (--no-added-syms, --deleted-fns ...): a hidden class counts as
       entirely filtered out */
    if (!o_del_f) N[F_RM] = 0;
    if (!o_add_f) N[F_ADD] = 0;
    if (!o_del_v) N[V_RM] = 0;
    if (!o_add_v) N[V_ADD] = 0;
    if (!o_syms) { N[FS_RM] = 0; N[VS_RM] = 0; }
    if (!(o_syms && o_add_syms)) { N[FS_ADD] = 0; N[VS_ADD] = 0; }
  }
}

#define INDEP() (soname_chg || arch_chg || N[F_RM] || N[F_ADD] || N[V_RM] || N[V_ADD] || N[FS_RM] || N[FS_ADD] \
                 || N[VS_RM] || N[VS_ADD] || N[UT_ADD] || N[UT_RM] || N[UT_CHG])

/* C13: leaf reporter vs default reporter */
void h_leaf_vs_default(void)
{
  setup(1);
  u8 inc = HAS_INCOMPAT((void *)diff_dummy);
  u8 net_d = NET_DEFAULT((void *)reporter_dummy, (void *)diff_dummy);
  u8 net_l = NET_LEAF((void *)reporter_dummy, (void *)diff_dummy);
  int indep = INDEP();
  PROP((net_l != 0) == (indep || N[LEAF_T] || N[LEAF_F] || N[LEAF_V]),
       "C13-leaf-net-iff: leaf-mode change bit is set exactly when architecture/SONAME changed or a net count of removed/added functions, variables, symbols, unreachable types or of leaf type/function/variable changes is non-zero");
  PROP((net_d != 0) == (indep || N[F_CHG] || N[V_CHG]),
       "C13-default-net-iff: default-mode change bit is set exactly when architecture/SONAME changed or a net count of the summary is non-zero");
  PROP(!indep || (net_l && net_d), "C13-mode-independent-agree: a removed/added function, variable, symbol or unreachable type, or a SONAME/architecture change sets the change bit in both modes");
  /* the two modes count sub-type changes differently (per interface vs per leaf type); they agree whenever
     "some changed interface is not filtered out" <=> "some leaf change is not filtered out", which is what the
     leaf marking establishes (outside this claim) */
  int changed_ifaces = N[F_CHG] || N[V_CHG], leaf_changes = N[LEAF_T] || N[LEAF_F] || N[LEAF_V];
  if (changed_ifaces == leaf_changes)
    PROP((net_l != 0) == (net_d != 0), "C13-agree-under-leaf-invariant: both modes compute the same change bit");
  if (!N[F_CHG] || leaf_changes)
    PROP(!inc || net_l, "C13-incompatible-implies-leaf-change: the incompatible bit never appears without the change bit in leaf mode");
  PROP(!inc || net_d, "C13-incompatible-implies-default-change: the incompatible bit never appears without the change bit in default mode");
  /* has_incompatible_changes does not depend on the reporter at all: recompute with the reference */
  int inc_ref = soname_chg || arch_chg || N[F_RM] || (virt && N[F_CHG]) || N[V_RM] || N[FS_RM] || N[VS_RM] || N[UT_RM] || N[UT_CHG];
  PROP((inc != 0) == (inc_ref != 0), "C13-incompatible-mode-independent: the incompatible bit is a function of the mode-independent net counts only");
  COVER(net_l && !net_d); COVER(net_d && !net_l); COVER(inc && net_l && net_d); COVER(ctx_alive && !o_del_f && T[F_RM]);
  WITNESS_END();
}

/* C19: binaries without debug info: only ELF symbol counters can be non-zero */
void h_symbols_only(void)
{
  setup(1);
  __CPROVER_assume(!T[F_RM] && !T[F_ADD] && !T[F_CHG] && !T[V_RM] && !T[V_ADD] && !T[V_CHG] && !virt
                   && !T[LEAF] && !T[LEAF_T] && !T[LEAF_F] && !T[LEAF_V] && !T[UT_ADD] && !T[UT_RM] && !T[UT_CHG]);
  u8 inc = HAS_INCOMPAT((void *)diff_dummy);
  u8 net_d = NET_DEFAULT((void *)reporter_dummy, (void *)diff_dummy);
  u8 net_l = NET_LEAF((void *)reporter_dummy, (void *)diff_dummy);
  u8 sub = HAS_SUBTYPE((void *)diff_dummy);
  int removed = N[FS_RM] || N[VS_RM], added = N[FS_ADD] || N[VS_ADD];
  PROP(!removed || (inc && net_d && net_l), "C19-removed-symbol-incompatible: a removed function or variable symbol that is not filtered out sets the change bit and the incompatible bit");
  PROP(removed || added || soname_chg || arch_chg || (!inc && !net_d && !net_l), "C19-identical-symbol-sets-clean: with no net symbol difference and equal SONAME/architecture neither bit is set");
  PROP(!added || (net_d && net_l), "C19-added-symbol-change: an added symbol that is shown sets the change bit");
  PROP(removed || soname_chg || arch_chg || !inc, "C19-added-only-compatible: additions alone never set the incompatible bit");
  PROP(!sub, "C19-no-subtype-change: no sub-type change is claimed for symbol-only statistics");
  /* options: hiding unreferenced symbols hides them from the verdict as well */
  if (ctx_alive && !o_syms) PROP(!removed && !added, "C19-hidden-symbols-not-counted");
  COVER(removed && !added); COVER(added && !removed); COVER(!removed && !added && !soname_chg && !arch_chg); COVER(ctx_alive && !o_syms && T[FS_RM]);
  WITNESS_END();
}

/* C05 (d): a removed exported function or variable always sets both bits (default options) */
void h_removed_iface(void)
{
  setup(0);
  u8 inc = HAS_INCOMPAT((void *)diff_dummy);
  u8 net_d = NET_DEFAULT((void *)reporter_dummy, (void *)diff_dummy);
  u8 net_l = NET_LEAF((void *)reporter_dummy, (void *)diff_dummy);
  u8 sub = HAS_SUBTYPE((void *)diff_dummy);
  if (N[F_RM] || N[V_RM])
    PROP(inc && net_d && net_l, "C05-removed-interface-incompatible: a removed function or variable that is not filtered out sets the change and incompatible bits");
  if (N[F_CHG] || N[V_CHG]) {
    PROP(net_d != 0, "C05-changed-interface-reported: a changed function or variable that is not filtered out sets the change bit");
    PROP(sub != 0, "C05-changed-interface-subtype: a changed function or variable that is not filtered out is a net sub-type change");
  }
  if (N[F_CHG] && virt) PROP(inc != 0, "C05-virtual-offset-change-incompatible: a net changed function with a vtable offset change sets the incompatible bit");
  if (N[UT_RM] || N[UT_CHG]) PROP(inc && net_d, "C05-unreachable-type-change-incompatible");
  PROP((sub != 0) == (N[F_CHG] || N[V_CHG] || N[UT_RM] || N[UT_CHG]), "C05-net-subtype-iff");
  COVER(N[F_RM] != 0); COVER(N[V_RM] != 0); COVER(N[F_CHG] && virt); COVER(!inc && net_d);
  WITNESS_END();
}

/* C10: every net counter is total - filtered (never wraps, never asserts) for every option set */
void h_net_counters(void)
{
  setup(1);
  void *s = (void *)&stats;
  u64 r[17];
  r[F_RM] = ST(20net_num_func_removedEv)(s); r[F_ADD] = ST(18net_num_func_addedEv)(s); r[F_CHG] = ST(20net_num_func_changedEv)(s);
  r[V_RM] = ST(20net_num_vars_removedEv)(s); r[V_ADD] = ST(18net_num_vars_addedEv)(s); r[V_CHG] = ST(20net_num_vars_changedEv)(s);
  r[FS_RM] = ST(25net_num_removed_func_symsEv)(s); r[FS_ADD] = ST(23net_num_added_func_symsEv)(s);
  r[VS_RM] = ST(24net_num_removed_var_symsEv)(s); r[VS_ADD] = ST(22net_num_added_var_symsEv)(s);
  r[LEAF] = ST(20net_num_leaf_changesEv)(s);
  r[LEAF_T] = ST(25net_num_leaf_type_changesEv)(s); r[LEAF_F] = ST(25net_num_leaf_func_changesEv)(s); r[LEAF_V] = ST(24net_num_leaf_var_changesEv)(s);
  r[UT_ADD] = ST(31net_num_added_unreachable_typesEv)(s); r[UT_RM] = ST(33net_num_removed_unreachable_typesEv)(s);
  r[UT_CHG] = ST(33net_num_changed_unreachable_typesEv)(s);
  int all = 1, le = 1;
  for (int i = 0; i < 17; i++) { all = all && r[i] == N[i]; le = le && r[i] <= T[i]; }
  PROP(all, "C10-net-is-total-minus-filtered: every net counter equals its total minus its filtered-out count (a class hidden by a display option counts as entirely filtered)");
  PROP(le, "C10-net-le-total: no net counter exceeds its total");
  PROP(ST(27num_added_func_filtered_outEv)(s) <= T[F_ADD] && ST(29num_removed_func_filtered_outEv)(s) <= T[F_RM]
       && ST(27num_added_vars_filtered_outEv)(s) <= T[V_ADD] && ST(29num_removed_vars_filtered_outEv)(s) <= T[V_RM]
       && ST(34num_removed_func_syms_filtered_outEv)(s) <= T[FS_RM] && ST(32num_added_func_syms_filtered_outEv)(s) <= T[FS_ADD]
       && ST(33num_removed_var_syms_filtered_outEv)(s) <= T[VS_RM] && ST(31num_added_var_syms_filtered_outEv)(s) <= T[VS_ADD],
       "C10-filtered-le-total: the filtered-out counts never exceed the totals, whatever the display options");
  COVER(ctx_alive && !o_add_f && T[F_ADD] > F[F_ADD]); COVER(ctx_alive && o_syms && !o_add_syms && T[VS_ADD]);
  WITNESS_END();
}
