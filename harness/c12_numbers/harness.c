/* src/abg-reporter-priv.cc: show_numerical_change / show_offset_or_size with emit_num_value and
   maybe_convert_bits_to_bytes, real, for EVERY value pair and every --show-bytes/--show-bits, --show-hex/--show-dec
   combination: the number printed together with its unit denotes the same quantity whatever the presentation
   options are, the sentence is complete, and the stream is never put into a failed state (a failed std::cout
   silently drops the rest of the report - interfaces reported after that point would disappear, C12). */
#include "unit.h"
#include "verif.h"
typedef struct class_std____cxx11__basic_string vstr_t;
extern u8 os_buf[]; extern u64 os_len; extern u64 os_num[]; extern u32 os_nnum; extern _Bool os_failed;
static _Bool opt_hex, opt_bits;
u8 _ZNK7abigail10comparison12diff_context15show_hex_valuesEv(void *c) { return opt_hex; }
u8 _ZNK7abigail10comparison12diff_context26show_offsets_sizes_in_bitsEv(void *c) { return opt_bits; }
static u64 stream_obj[40];
static int streq(const u8 *p, u64 n, const char *lit) { u64 i = 0; for (; lit[i]; i++) if (i >= n || p[i] != (u8)lit[i]) return 0; return i == n; }

void h_numbers(void)
{
  opt_hex = nondet_bool(); opt_bits = nondet_bool();
  u64 ob = nondet_u64(), nb = nondet_u64(), ctx[2] = {0, 0};
  _Bool unit = nondet_bool(), two = nondet_bool();
  vstr_t what; vs_make(&what, "sz");
  os_len = 0; os_nnum = 0; os_failed = 0;
  if (two) {
    _ZN7abigail10comparison21show_numerical_changeERKNSt7__cxx1112basic_stringIcSt11char_traitsIcESaIcEEEmmRKNS0_12diff_contextERSob(&what, ob, nb, (void *)ctx, (void *)stream_obj, unit);
    PROP(!os_failed, "C12-numbers-stream-stays-good: reporting a numerical change never puts the output stream into a failed state");
    PROP(os_nnum == 2, "C12-numbers-both-values: the old and the new value are both printed");
    int bytes = streq(os_buf, os_len, "sz changed from # to # (in bytes)");
    int bits = streq(os_buf, os_len, "sz changed from # to # (in bits)");
    int bare = streq(os_buf, os_len, "sz changed from # to #");
    PROP(unit ? (bytes || bits) : bare, "C12-numbers-sentence: the sentence is complete and names its unit when asked to");
    if (unit && os_nnum == 2) {
      PROP(!bytes || (os_num[0] * 8 == ob && os_num[1] * 8 == nb && ob % 8 == 0 && nb % 8 == 0), "C12-numbers-bytes-exact: values shown in bytes are exact (only when both are whole bytes)");
      PROP(!bits || (os_num[0] == ob && os_num[1] == nb), "C12-numbers-bits-exact: values shown in bits are the bit counts");
      PROP(!opt_bits || bits, "C12-numbers-show-bits: --show-bits shows bits");
    }
    if (!unit && os_nnum == 2)
      PROP((os_num[0] == ob && os_num[1] == nb) || (!opt_bits && os_num[0] * 8 == ob && os_num[1] * 8 == nb),
           "C12-numbers-unitless-consistent: without a unit both values are shown in the same unit");
    COVER(bytes); COVER(bits && !opt_bits); COVER(bare && opt_hex);
  } else {
    _ZN7abigail10comparison19show_offset_or_sizeERKNSt7__cxx1112basic_stringIcSt11char_traitsIcESaIcEEEmRKNS0_12diff_contextERSo(&what, ob, (void *)ctx, (void *)stream_obj);
    PROP(!os_failed, "C12-offset-stream-stays-good: reporting an offset or size never puts the output stream into a failed state");
    int bytes = streq(os_buf, os_len, "sz # (in bytes)"), bits = streq(os_buf, os_len, "sz # (in bits)");
    PROP((bytes || bits) && os_nnum == 1, "C12-offset-sentence: value and unit are printed");
    if (os_nnum == 1) {
      PROP(!bytes || (os_num[0] * 8 == ob && ob % 8 == 0), "C12-offset-bytes-exact: an offset shown in bytes is exact");
      PROP(!bits || os_num[0] == ob, "C12-offset-bits-exact: an offset shown in bits is the bit count");
      PROP(!opt_bits || bits, "C12-offset-show-bits: --show-bits shows bits");
    }
    COVER(bytes); COVER(bits && !opt_bits);
  }
  WITNESS_END();
}
