/* C38 - the greedy forward/reverse D-path search of the sequence diff engine: the real
   diff_utils::ses_len(const char*, const char*, bool reverse) (src/abg-diff-utils.cc), i.e. the real templates
   ses_len<>, end_of_fr_d_path_in_k, end_of_frr_d_path_in_k_plus_delta and d_path_vec (include/abg-diff-utils.h)
   instantiated for const char* with the real libstdc++ vector<int>.  For ALL pairs of strings of up to M bytes
   the length of the shortest edit script is |A| + |B| - 2*LCS(A,B) (reference LCS by dynamic programming),
   walking forward and backward. */
#include "unit.h"
#include "verif.h"
#define SES_LEN _ZN7abigail10diff_utils7ses_lenEPKcS2_b
#ifndef M
#define M 2
#endif
static u64 mk(u8 *s)
{
  u64 n = nondet_u64();
  __CPROVER_assume(n <= M);
  for (u64 i = 0; i < M; i++) {
    u8 c = nondet_u8();
    __CPROVER_assume(c >= 1 && c <= 3);   /* 3-letter alphabet: only equality of elements matters */
    s[i] = i < n ? c : 0;
  }
  s[M] = 0;
  return n;
}
void h_ses_len(void)
{
  u8 a[M + 1], b[M + 1];
  u64 la = mk(a), lb = mk(b);
#ifdef REVERSE
  _Bool reverse = 1;
#else
  _Bool reverse = 0;
#endif
  u32 L[M + 1][M + 1];
  for (u64 i = 0; i <= M; i++)
    for (u64 j = 0; j <= M; j++) {
      if (i == 0 || j == 0) L[i][j] = 0;
      else if (i <= la && j <= lb && a[i - 1] == b[j - 1]) L[i][j] = L[i - 1][j - 1] + 1;
      else L[i][j] = L[i - 1][j] > L[i][j - 1] ? L[i - 1][j] : L[i][j - 1];
    }
  u32 lcs = L[la][lb];
  u32 r = SES_LEN(a, b, reverse);
  if (reverse)
    PROP(r == (u32)(la + lb - 2 * lcs), "C38-ses-len-reverse: ses_len(A, B, reverse=true) is |A| + |B| - 2*LCS(A,B)");
  else
    PROP(r == (u32)(la + lb - 2 * lcs), "C38-ses-len-forward: ses_len(A, B, reverse=false) is |A| + |B| - 2*LCS(A,B)");
  COVER(la == M && lb == M && lcs == 1);
  COVER(la == M && lb == M && lcs == M);
  COVER(la == 0 && lb == M);
  WITNESS_END();
}
