/* tools/abidiff.cc:set_diff_context_from_opts (real, static) run on the real diff_context setters/getters over the
   state the real diff_context::priv constructor builds.
   C12: non-interference by self-composition - two option sets that differ ONLY in presentation options yield
        contexts that agree on every verdict-relevant setting, and the same sequence of suppression-loading calls.
   C05/C07: wiring of --harmless / --no-harmful into the allowed-category mask, combined with the real
        diff::priv::is_filtered_out over EVERY category value. */
#include "unit.h"
#include "verif.h"
#define SETCTX _ZL26set_diff_context_from_optsSt10shared_ptrIN7abigail10comparison12diff_contextEER7options
#define PRIV_CTOR _ZN7abigail10comparison12diff_context4privC2Ev
#define IS_FILTERED _ZN7abigail10comparison4diff4priv15is_filtered_outENS0_13diff_categoryE
#define HARMLESS _ZN7abigail10comparison38get_default_harmless_categories_bitmapEv
#define HARMFUL _ZN7abigail10comparison37get_default_harmful_categories_bitmapEv
#define CTX(n) _ZNK7abigail10comparison12diff_context##n
typedef struct struct_abigail__comparison__diff_context__priv ctx_priv;
typedef struct { ctx_priv *p; } ctx_t;
typedef struct { void *b, *e, *c; } vec3;

/* ---- recording stubs ---- */
static u32 log_n, log_hash;
static void logcall(u32 what, u64 arg) { log_n++; log_hash = log_hash * 31u + what * 7u + (u32)arg; }
static ctx_t *cur_ctx;
static u64 supprs_dummy[3];
void _ZN7abigail5suppr17read_suppressionsERKNSt7__cxx1112basic_stringIcSt11char_traitsIcESaIcEEERSt6vectorISt10shared_ptrINS0_16suppression_baseEESaISC_EE(struct class_std____cxx11__basic_string *path, void *v)
{ logcall(1, path->f1); }
void _ZN7abigail10comparison12diff_context16add_suppressionsERKSt6vectorISt10shared_ptrINS_5suppr16suppression_baseEESaIS6_EE(void *c, void *v) { logcall(2, 0); }
void _ZN7abigail10comparison12diff_context15add_suppressionESt10shared_ptrINS_5suppr16suppression_baseEE(void *c, void *s) { logcall(3, 0); }
void *_ZNK7abigail10comparison12diff_context12suppressionsEv(void *c) { logcall(4, 0); return supprs_dummy; }
void _ZN7abigail11tools_utils32load_default_system_suppressionsERSt6vectorISt10shared_ptrINS_5suppr16suppression_baseEESaIS5_EE(void *v) { logcall(5, 0); }
void _ZN7abigail11tools_utils30load_default_user_suppressionsERSt6vectorISt10shared_ptrINS_5suppr16suppression_baseEESaIS5_EE(void *v) { logcall(6, 0); }
static _Bool hdr_suppr;
void _ZN7abigail11tools_utils27gen_suppr_spec_from_headersERKSt6vectorINSt7__cxx1112basic_stringIcSt11char_traitsIcESaIcEEESaIS7_EESB_(void *sret, void *dirs, void *files)
{ void **r = sret; r[0] = hdr_suppr ? (void *)supprs_dummy : 0; r[1] = 0; logcall(7, (((vec3 *)dirs)->b != ((vec3 *)dirs)->e) + 2 * (((vec3 *)files)->b != ((vec3 *)files)->e)); }
/* destructors of the (stubbed, always empty) local suppression vector / shared_ptr */
void _ZNSt6vectorISt10shared_ptrIN7abigail5suppr16suppression_baseEESaIS4_EED2Ev(void *v) { }
void _ZNSt12__shared_ptrIN7abigail5suppr16suppression_baseELN9__gnu_cxx12_Lock_policyE2EED2Ev(void *v) { }
void _ZNK7abigail10comparison4diff4priv11get_contextEv(void *sret, void *self)
{ void **r = sret; r[0] = cur_ctx; r[1] = 0; }

static u8 opts_mem[2][512] __attribute__((aligned(16)));
static ctx_priv cp[2];
static ctx_t ctx[2];
static struct class_std____cxx11__basic_string paths[5];

static void *mkopts(int k, const _Bool *verdict, const _Bool *pres, const _Bool *vec_nonempty)
{
  __CPROVER_assert(w_opts_size() <= 512, "BOUND: options struct larger than the harness buffer");
  void *o = w_opts_new(opts_mem[k]);
  w_opts_set_verdict(o, (void *)verdict);
  w_opts_set_presentation(o, (void *)pres);
  for (int i = 0; i < 5; i++)
    if (vec_nonempty[i]) { vec3 *v = w_opts_vec(o, i); v->b = &paths[i]; v->e = &paths[i] + 1; v->c = &paths[i] + 1; }
  return o;
}
static void mkctx(int k)
{
  memset(&cp[k], 0, sizeof cp[k]);
  PRIV_CTOR(&cp[k]);
  ctx[k].p = &cp[k];
}
static u32 run(int k, void *o)
{
  void *sp[2] = { &ctx[k], 0 };   /* diff_context_sptr passed by value: {pointer, null control block} */
  log_n = 0; log_hash = 0;
  SETCTX((void *)sp, o);
  return log_hash * 64u + log_n;
}
#define G(k, n) (CTX(n)((void *)&ctx[k]) != 0)
#define GN(k, n) (_ZN7abigail10comparison12diff_context##n((void *)&ctx[k]) != 0)

void h_presentation(void)
{
  _Bool verdict[20], pres1[7], pres2[7], vecs[5];
  for (int i = 0; i < 20; i++) verdict[i] = nondet_bool();
  for (int i = 0; i < 7; i++) { pres1[i] = nondet_bool(); pres2[i] = nondet_bool(); }
  for (int i = 0; i < 5; i++) { vecs[i] = nondet_bool(); vs_make(&paths[i], i & 1 ? "p1" : "p"); }
  hdr_suppr = nondet_bool();
  void *o1 = mkopts(0, verdict, pres1, vecs), *o2 = mkopts(1, verdict, pres2, vecs);
  mkctx(0); mkctx(1);
  u32 l1 = run(0, o1), l2 = run(1, o2);
  PROP(l1 == l2, "C12-same-suppression-loading: presentation options do not change which suppression specifications are loaded");
  PROP(CTX(20get_allowed_categoryEv)((void *)&ctx[0]) == CTX(20get_allowed_categoryEv)((void *)&ctx[1]),
       "C12-same-allowed-categories: presentation options do not change the allowed-category mask");
  PROP(G(0, 22show_leaf_changes_onlyEv) == G(1, 22show_leaf_changes_onlyEv) && G(0, 15show_stats_onlyEv) == G(1, 15show_stats_onlyEv)
       && G(0, 16show_deleted_fnsEv) == G(1, 16show_deleted_fnsEv) && G(0, 16show_changed_fnsEv) == G(1, 16show_changed_fnsEv)
       && G(0, 14show_added_fnsEv) == G(1, 14show_added_fnsEv) && G(0, 17show_deleted_varsEv) == G(1, 17show_deleted_varsEv)
       && G(0, 17show_changed_varsEv) == G(1, 17show_changed_varsEv) && G(0, 15show_added_varsEv) == G(1, 15show_added_varsEv)
       && G(0, 18show_soname_changeEv) == G(1, 18show_soname_changeEv) && G(0, 24show_architecture_changeEv) == G(1, 24show_architecture_changeEv)
       && G(0, 22show_redundant_changesEv) == G(1, 22show_redundant_changesEv)
       && G(0, 39show_symbols_unreferenced_by_debug_infoEv) == G(1, 39show_symbols_unreferenced_by_debug_infoEv)
       && G(0, 45show_added_symbols_unreferenced_by_debug_infoEv) == G(1, 45show_added_symbols_unreferenced_by_debug_infoEv)
       && GN(0, 22show_unreachable_typesEv) == GN(1, 22show_unreachable_typesEv)
       && G(0, 24show_impacted_interfacesEv) == G(1, 24show_impacted_interfacesEv),
       "C12-same-verdict-settings: presentation options do not change any setting that selects what is counted or reported");
  /* the presentation flags themselves do arrive */
  PROP(G(0, 9show_locsEv) == pres1[0] && G(0, 15show_hex_valuesEv) == pres1[1] && G(0, 26show_offsets_sizes_in_bitsEv) == pres1[2]
       && GN(0, 28show_relative_offset_changesEv) == pres1[3] && G(0, 18show_linkage_namesEv) == pres1[4],
       "C12-presentation-arrives: each presentation option sets exactly its own display flag");
  COVER(pres1[0] != pres2[0] && pres1[1] != pres2[1] && pres1[4] != pres2[4]);
  COVER(log_n > 3);
  WITNESS_END();
}

void h_category_wiring(void)
{
  _Bool verdict[20], pres[7], vecs[5] = { 0, 0, 0, 0, 0 };
  /* start from the defaults of the real options() constructor, then make the options of interest arbitrary */
  void *o = w_opts_new(opts_mem[0]);
  _Bool harmless = nondet_bool(), harmful = nondet_bool(), leaf = nondet_bool(), redundant = nondet_bool();
  for (int i = 0; i < 20; i++) verdict[i] = 0;
  verdict[0] = leaf; verdict[5] = 1; verdict[9] = 1; verdict[11] = redundant; verdict[12] = 1; verdict[13] = 1;
  verdict[16] = harmless; verdict[17] = harmful;
  for (int i = 0; i < 7; i++) pres[i] = nondet_bool();
  o = mkopts(0, verdict, pres, vecs);
  mkctx(0);
  (void)run(0, o);
  u32 allowed = CTX(20get_allowed_categoryEv)((void *)&ctx[0]);
  u32 HL = HARMLESS(), HF = HARMFUL();
  const u32 SUPPRESSED = 1u << 9, PRIVATE = 1u << 10, REDUNDANT = 1u << 13, EVERYTHING = (1u << 22) - 1;
  PROP((HL & HF) == 0 && (HL & (SUPPRESSED | PRIVATE | REDUNDANT)) == 0 && (HF & (SUPPRESSED | PRIVATE | REDUNDANT)) == 0,
       "C07-bitmaps-disjoint: default harmless and harmful bitmaps are disjoint and contain no bookkeeping category");
  PROP(HF == ((1u << 11) | (1u << 12) | (1u << 18)), "C05-harmful-bitmap: size/offset, virtual member and parameter add/remove changes are the default harmful categories");
  PROP((HL | HF | SUPPRESSED | PRIVATE | REDUNDANT) == EVERYTHING, "C07-every-category-classified: every category is harmless, harmful or bookkeeping");
  /* an arbitrary diff node category and an arbitrary diff::priv (only ctxt_ is read, through the get_context stub) */
  u32 c = nondet_u32();
  __CPROVER_assume((c & ~EVERYTHING) == 0);
  static u64 dpriv[40];
  cur_ctx = &ctx[0];
  u8 filtered = IS_FILTERED((void *)dpriv, c);
  int bookkeeping = (c & (SUPPRESSED | PRIVATE)) || ((c & REDUNDANT) && !(redundant || leaf));
  if (harmful && !bookkeeping && (c & HF))
    PROP(!filtered, "C05-harmful-never-filtered: unless --no-harmful is given, a node carrying a harmful category that is neither suppressed, private nor redundant is not filtered out");
  if (!harmless && harmful && (c & ~REDUNDANT) != 0 && (c & ~(HL | REDUNDANT)) == 0)
    PROP(filtered, "C07-harmless-filtered-by-default: a node carrying only harmless categories is filtered out by default");
  if (harmless && !bookkeeping && (c & HL))
    PROP(!filtered, "C07-harmless-shown-with-option: with --harmless a node carrying a harmless category is not filtered out");
  if (!harmful && (c & ~REDUNDANT) != 0 && (c & ~(HF | REDUNDANT)) == 0 && !harmless)
    PROP(filtered, "C07-no-harmful-filters-harmful: with --no-harmful a node carrying only harmful categories is filtered out");
  if (harmless && harmful) PROP(allowed == EVERYTHING, "C07-everything-allowed");
  PROP(allowed == (EVERYTHING & ~(harmless ? 0 : HL) & ~(harmful ? 0 : HF)), "C07-allowed-mask: the allowed mask is everything minus the switched-off default bitmaps");
  PROP(G(0, 22show_redundant_changesEv) == (redundant || leaf), "C12-redundant-wiring: redundant changes are shown with --redundant or in leaf mode");
  COVER(filtered && (c & HF)); COVER(!filtered && c != 0 && harmful && !harmless); COVER(harmless && filtered);
  WITNESS_END();
}
