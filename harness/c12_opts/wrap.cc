// The real tools/abidiff.cc, compiled into the unit so that its file-local options struct and static functions
// (set_diff_context_from_opts, parse_command_line) are reachable; plus field accessors for the C harness.
#define main abidiff_main
#include "abidiff.cc"
#include <new>
extern "C" {
unsigned long w_opts_size() { return sizeof(options); }
options* w_opts_new(void* mem) { return new (mem) options; }
// verdict-relevant options (everything set_diff_context_from_opts reads that is not presentation)
void w_opts_set_verdict(options* o, const bool* b)
{
  o->leaf_changes_only = b[0]; o->show_stats_only = b[1]; o->show_deleted_fns = b[2]; o->show_changed_fns = b[3];
  o->show_added_fns = b[4]; o->show_all_fns = b[5]; o->show_deleted_vars = b[6]; o->show_changed_vars = b[7];
  o->show_added_vars = b[8]; o->show_all_vars = b[9]; o->ignore_soname = b[10]; o->show_redundant_changes = b[11];
  o->show_symbols_not_referenced_by_debug_info = b[12]; o->show_added_syms = b[13]; o->show_all_types = b[14];
  o->show_impacted_interfaces = b[15]; o->show_harmless_changes = b[16]; o->show_harmful_changes = b[17];
  o->no_default_supprs = b[18]; o->dump_diff_tree = b[19];
}
// presentation-only options (--no-show-locs, --show-bytes/--show-bits, --show-hex/--show-dec, --no-linkage-name,
// --no-show-relative-offset-changes, --no-corpus-path, --no-architecture)
void w_opts_set_presentation(options* o, const bool* b)
{
  o->show_locs = b[0]; o->show_hexadecimal_values = b[1]; o->show_offsets_sizes_in_bits = b[2];
  o->show_relative_offset_changes = b[3]; o->show_linkage_names = b[4]; o->no_corpus = b[5]; o->no_arch = b[6];
}
bool w_opts_get(options* o, int i)
{
  switch (i) {
  case 0: return o->show_harmless_changes; case 1: return o->show_harmful_changes; case 2: return o->leaf_changes_only;
  case 3: return o->show_redundant_changes; case 4: return o->show_locs; case 5: return o->show_hexadecimal_values;
  case 6: return o->show_offsets_sizes_in_bits; case 7: return o->show_relative_offset_changes; case 8: return o->show_linkage_names;
  case 9: return o->no_corpus; case 10: return o->no_arch; case 11: return o->show_stats_only; case 12: return o->show_all_fns;
  case 13: return o->show_all_vars; case 14: return o->show_added_syms; case 15: return o->show_symbols_not_referenced_by_debug_info;
  case 16: return o->display_usage; case 17: return o->missing_operand; case 18: return o->show_impacted_interfaces;
  case 19: return o->show_deleted_fns; case 20: return o->show_changed_fns; case 21: return o->show_added_fns;
  case 22: return o->show_deleted_vars; case 23: return o->show_changed_vars; case 24: return o->show_added_vars;
  case 25: return o->ignore_soname; case 26: return o->show_all_types; case 27: return o->no_default_supprs;
  }
  return false;
}
void* w_opts_vec(options* o, int i)
{
  switch (i) {
  case 0: return &o->suppression_paths; case 1: return &o->headers_dirs1; case 2: return &o->header_files1;
  case 3: return &o->headers_dirs2; case 4: return &o->header_files2;
  }
  return 0;
}
}
extern "C" {
// options set by the command line parser that main() itself tests
void w_opts_set_misc(options* o, const bool* b)
{
  o->display_usage = b[0]; o->display_version = b[1]; o->missing_operand = b[2]; o->show_symtabs = b[3];
  o->fail_no_debug_info = b[4]; o->show_stats = b[5]; o->do_log = b[6]; o->drop_private_types = b[7];
  o->linux_kernel_mode = b[8];
}
std::string* w_opts_file(options* o, int i) { return i == 0 ? &o->file1 : i == 1 ? &o->file2 : &o->wrong_option; }
}
