/* C33 - the reader passes attribute text (names, linkage names, type names...) through
   xml::unescape_xml_string / unescape_xml_comment (src/abg-libxml-utils.cc), which look up to five bytes ahead
   of a '&' without a length test.  On ANY text of up to N bytes (including text that ends inside an entity:
   "&", "&am", "&apos") no index goes past size() and the result is a well-formed string no longer than the input. */
#include "unit.h"
#include "verif.h"
typedef struct class_std____cxx11__basic_string vstr;
#define UNESC _ZN7abigail3xml19unescape_xml_stringERKNSt7__cxx1112basic_stringIcSt11char_traitsIcESaIcEEERS6_
#define UNESCC _ZN7abigail3xml20unescape_xml_commentERKNSt7__cxx1112basic_stringIcSt11char_traitsIcESaIcEEERS6_
#ifndef N
#define N 3
#endif
void h_unescape_any(void)
{
  /* arbitrary text, e.g. truncated entities "&", "&am", "&apos": memory safety + output never longer */
  vstr s, u, cu;
  vs_nondet(&s, N);
  vs_make(&u, ""); vs_make(&cu, "");
  UNESC(&s, &u);
  PROP(vs_wf(&u) && u.f1 <= s.f1, "C33-unescape-any: unescaping any text yields a well-formed string no longer than the input");
  UNESCC(&s, &cu);
  PROP(vs_wf(&cu) && cu.f1 <= s.f1, "C33-unescape-comment-any: same for comments");
  COVER(s.f1 == N && s.f0.f0[N - 1] == '&');
  COVER(u.f1 + 5 == s.f1);
  WITNESS_END();
}
