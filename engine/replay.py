"""Native side of the check driver.

Two builds of one harness entry, both from the harness's own harness.c (-DVERIF_NATIVE):
  real : linked against g++ -O0 -fsanitize=address,undefined objects compiled from the REAL source
         files of /repo's current tree (spec.sources + the harness's wrap.cc).  The harness passes
         objects with the real libstdc++ layout, so the real functions and the real libstdc++ run.
  xlat : linked against the gcc build of the translated unit.c + the C models (what CBMC analysed).

replay()       feeds the nondet values of a CBMC counterexample to the real build; a violation is
               confirmed only if the real code fails the same way (PROP tag fails / crash / sanitizer).
differential() runs both builds over seeded pseudo-random value vectors; every accepted vector must
               give the same sequence of PROP verdicts in both builds (validation of ir2c + models,
               not the deciding step) and no PROP may fail in the real build.
"""
import os, re, subprocess, hashlib, json, threading, glob

_obj_lock = threading.Lock()

GXX_FLAGS = ['-std=c++11', '-DHAVE_CONFIG_H', '-DABIGAIL_ROOT_SYSTEM_LIBDIR="/usr/local/lib"',
             '-I/usr/include/libxml2', '-fvisibility=hidden', '-O0', '-g', '-w', '-fPIC',
             '-D_GLIBCXX_ASSERTIONS', '-fsanitize=address,undefined', '-fno-sanitize=vptr', '-fno-sanitize-recover=undefined']


def sh(cmd, **kw):
    return subprocess.run(cmd, stdout=subprocess.PIPE, stderr=subprocess.PIPE, text=True, errors='replace', **kw)


def _hash_files(paths, extra=''):
    h = hashlib.sha256(extra.encode())
    for p in paths:
        h.update(p.encode())
        with open(p, 'rb') as f:
            h.update(f.read())
    return h.hexdigest()[:20]


def real_objects(ROOT, REPO, spec, bdir, hdr_hash):
    """g++ objects of the real sources (cached on source + header contents)"""
    objs = []
    srcs = [os.path.join(REPO, s) for s in spec.get('sources', [])]
    if spec.get('wrap'):
        srcs.append(os.path.join(spec['dir'], spec['wrap']))
    inc = ['-I' + REPO + '/src', '-I' + REPO, '-I' + REPO + '/include', '-I' + REPO + '/tools', '-I' + spec['dir'], '-I' + bdir]
    gen = [os.path.join(bdir, g['to']) for g in spec.get('gen_sources', [])]
    cdir = os.path.join(ROOT, 'build', 'objcache')
    os.makedirs(cdir, exist_ok=True)
    for s in srcs:
        # file-local roots are globalised in the object, so the harness's root list is part of the key
        key = _hash_files([s] + (gen if s.endswith(spec.get('wrap') or '\0') else []),
                          hdr_hash + ' '.join(GXX_FLAGS) + ' '.join(sorted(r_ for r_ in spec.get('roots', []) if 'L' in r_)))
        o = os.path.join(cdir, '%s-%s.o' % (os.path.basename(s).replace('.', '_'), key))
        if not os.path.exists(o):
            tmp = o + '.tmp%d' % os.getpid()
            wf = spec.get('wrap_flags', []) if s.endswith(spec.get('wrap') or '\0') else []
            r = sh(['g++'] + GXX_FLAGS + inc + wf + ['-c', s, '-o', tmp])
            if r.returncode != 0:
                raise RuntimeError('g++ failed on %s: %s' % (s, r.stderr[-2000:]))
            # roots with internal linkage (static functions) become linkable for the harness
            nm = sh(['nm', tmp]).stdout
            local = {ln.split()[-1] for ln in nm.splitlines() if len(ln.split()) == 3 and ln.split()[1] in 'tdbr'}
            glob_ = [x for x in spec.get('roots', []) if x in local]
            if glob_:
                sh(['objcopy'] + sum([['--globalize-symbol', g] for g in glob_], []) + [tmp])
            os.replace(tmp, o)
            pref = os.path.basename(s).replace('.', '_') + '-'
            for f in sorted(glob.glob(os.path.join(cdir, pref + '*.o')), key=os.path.getmtime)[:-3]:
                try:
                    os.unlink(f)
                except OSError:
                    pass
        objs.append(o)
    return objs


def build_native(ROOT, REPO, spec, entry, defines, bdir, kind, hdr_hash):
    models = os.path.join(ROOT, 'engine', 'models')
    tag = hashlib.sha256(json.dumps([defines, entry['function'], kind], sort_keys=True).encode()).hexdigest()[:10]
    out = os.path.join(bdir, 'native-%s-%s' % (kind, tag))
    cflags = ['-O0', '-g', '-w', '-DVERIF_NATIVE', '-DVERIF_ENTRY=' + entry['function'], '-I' + bdir, '-I' + models, '-I' + spec['dir']]
    for k, v in defines.items():
        cflags.append('-D%s=%s' % (k, v))
    if 'ostream' in spec.get('models', []):
        cflags.append('-DVERIF_OSTREAM_MODEL=1')
    cs = [os.path.join(spec['dir'], f) for f in spec.get('files', ['harness.c'])] + [os.path.join(models, 'native_main.c')]
    if spec.get('autostub'):
        cs.append(os.path.join(bdir, 'autostubs.c'))
    mods = spec.get('models', ['rt'])
    if kind == 'real':
        cflags += ['-DVERIF_NATIVE_REAL', '-fsanitize=address,undefined']
        cs += [os.path.join(models, m + '.c') for m in mods if m != 'rt']
        with _obj_lock:
            objs = real_objects(ROOT, REPO, spec, bdir, hdr_hash)
        link = ['g++', '-fsanitize=address,undefined', '-o', out]
        lib = os.path.join(REPO, 'src', '.libs')
        mine = {os.path.basename(x).rsplit('.', 1)[0] for x in spec.get('sources', [])}
        rest = [o for o in sorted(glob.glob(os.path.join(lib, '*.o'))) if os.path.basename(o)[:-2] not in mine]
        if rest:
            # the other translation units of libabigail as built in the tree (hidden-visibility symbols are
            # not exported by libabigail.so, so the objects themselves are linked); the units under test are
            # always the freshly compiled ones
            tail = ['-Wl,--allow-multiple-definition'] + rest + ['-lxml2', '-lelf', '-ldw', '-lpthread']  # harness stubs come first and win
        elif os.path.exists(os.path.join(lib, 'libabigail.so')):
            tail = ['-Wl,--allow-multiple-definition', '-L' + lib, '-Wl,-rpath,' + lib, '-labigail']
        else:
            tail = ['-no-pie', '-Wl,--allow-multiple-definition', '-Wl,--unresolved-symbols=ignore-all', '-Wl,-z,lazy']
    else:
        cs += [os.path.join(bdir, 'unit.c')] + [os.path.join(models, m + '.c') for m in mods]
        objs = []
        link = ['gcc', '-o', out]
        tail = []
    cobjs = []
    for c in cs:
        o = os.path.join(bdir, 'n-%s-%s-%s.o' % (kind, tag, os.path.basename(c).replace('.', '_')))
        r = sh(['gcc'] + cflags + ['-c', c, '-o', o])
        if r.returncode != 0:
            raise RuntimeError('gcc failed on %s (%s): %s' % (c, kind, r.stderr[-2000:]))
        cobjs.append(o)
    r = sh(link + cobjs + objs + tail + (spec.get('native_libs', []) if kind == 'real' else []))
    for o in cobjs:
        try:
            os.unlink(o)
        except OSError:
            pass
    if r.returncode != 0:
        raise RuntimeError('link failed (%s): %s' % (kind, r.stderr[-2000:]))
    return out


ENV = dict(os.environ, ASAN_OPTIONS='alloc_dealloc_mismatch=0:detect_leaks=0:abort_on_error=0:exitcode=98', UBSAN_OPTIONS='print_stacktrace=1:exitcode=99')


def replay(ROOT, REPO, spec, entry, defines, vals, rdir, bdir, hdr_hash, description):
    """returns (confirmed: bool, text)"""
    exe = build_native(ROOT, REPO, spec, entry, defines, bdir, 'real', hdr_hash)
    vf = os.path.join(rdir, 'values.txt')
    with open(vf, 'w') as f:
        f.write('\n'.join(str(v) for v in vals) + '\n')
    keep = os.path.join(rdir, 'replay-real')
    try:
        import shutil
        shutil.copy2(exe, keep)
    except Exception:
        keep = exe
    with open(os.path.join(rdir, 'replay.sh'), 'w') as f:
        f.write('#!/bin/sh\n# re-runs the counterexample against the g++ build of the real sources\n'
                'ASAN_OPTIONS=alloc_dealloc_mismatch=0:detect_leaks=0:exitcode=98 exec "%s" replay "%s"\n' % (keep, vf))
    os.chmod(os.path.join(rdir, 'replay.sh'), 0o755)
    try:
        r = sh([keep, 'replay', vf], env=ENV, timeout=120)
    except subprocess.TimeoutExpired:
        return True, 'real build did not terminate within 120 s on the counterexample'
    finally:
        if keep != exe:
            try:
                os.unlink(exe)
            except OSError:
                pass
    txt = (r.stdout + r.stderr)[-3000:]
    tag = description.split(':')[0]
    if r.returncode == 77:
        return False, 'real build rejected the inputs (assumption violated): ' + txt[-300:]
    if r.returncode == 1 and ('REPLAY-ASSERT-FAILED: ' + tag) in txt:
        return True, 'real build fails the same assertion: ' + tag
    if r.returncode in (98, 99) or r.returncode < 0:
        return True, 'real build crashed / sanitizer report (exit %d): %s' % (r.returncode, txt[-600:])
    if r.returncode not in (0, 1):
        return False, 'replay machinery error: native run exited %d: %s' % (r.returncode, txt[-300:])
    if r.returncode == 1:
        return True, 'real build fails a different assertion: ' + txt[-300:]
    return False, 'real build passes on the counterexample values'


def differential(ROOT, REPO, spec, entry, defines, bdir, hdr_hash, seed, count):
    """returns dict(status='ok'|'mismatch'|'real-fails'|'error', accepted=n, ...)"""
    try:
        ex_r = build_native(ROOT, REPO, spec, entry, defines, bdir, 'real', hdr_hash)
        ex_x = build_native(ROOT, REPO, spec, entry, defines, bdir, 'xlat', hdr_hash)
    except Exception as e:
        return {'status': 'error', 'msg': str(e)[-1500:]}
    try:
        rr = sh([ex_r, 'random', str(seed), str(count)], env=ENV, timeout=300)
        rx = sh([ex_x, 'random', str(seed), str(count)], env=ENV, timeout=300)
    except subprocess.TimeoutExpired:
        return {'status': 'error', 'msg': 'native run timed out'}
    for f_ in (ex_r, ex_x):   # the binaries are rebuilt on every run; do not keep them
        try:
            os.unlink(f_)
        except OSError:
            pass
    if rr.returncode != 0:
        return {'status': 'real-crash', 'msg': 'real build crashed during random vectors (exit %d): %s' % (rr.returncode, (rr.stdout[-300:] + rr.stderr[-1200:]))}
    if rx.returncode != 0:
        return {'status': 'error', 'msg': 'translated build crashed (exit %d): %s' % (rx.returncode, rx.stderr[-800:])}
    # result lines are prefixed '@@ ' (the real tool code may print to stdout as well)
    lr = [l_[3:] for l_ in rr.stdout.splitlines() if l_.startswith('@@ ')]
    lx = [l_[3:] for l_ in rx.stdout.splitlines() if l_.startswith('@@ ')]
    acc = 0
    for a, b in zip(lr, lx):
        fa, fb = a.split(), b.split()
        if fa[1] == 'rejected' or fb[1] == 'rejected':
            if fa[1] != fb[1]:
                # BOUND rejections exist only in the model build; anything else is a mismatch
                continue
            continue
        acc += 1
        if fa[1:3] != fb[1:3]:
            return {'status': 'mismatch', 'accepted': acc, 'msg': 'vector %s: real [%s] vs translated [%s]' % (fa[0], a, b)}
        if fa[2] != '0':
            return {'status': 'real-fails', 'accepted': acc, 'vector': int(fa[0]), 'msg': 'real build fails %s on random vector %s' % (' '.join(fa[3:]), fa[0])}
    if len(lr) != len(lx) or len(lr) != count:
        return {'status': 'error', 'msg': 'native runs printed %d / %d lines, expected %d' % (len(lr), len(lx), count)}
    return {'status': 'ok', 'accepted': acc, 'vectors': count}
