#!/usr/bin/env python3
"""ir2c: translate LLVM-14 textual IR (typed pointers) into C for CBMC.

Usage (library): see Unit / translate().  CLI:
  ir2c.py unit.ll --roots f1,f2 [--cut regex,...] [--keep-vtable-fns regex] -o outdir

Outputs <outdir>/unit.h (types, prototypes, extern globals, DECL_/DEF_/HAVE_ macros)
and <outdir>/unit.c (globals + function bodies) and <outdir>/unit.json
(functions encoded, functions left bodyless, name maps).
"""
import re, sys, json, argparse, os

# ----------------------------------------------------------------------------
# tokenizer
# ----------------------------------------------------------------------------
TOK = re.compile(r'''
   (?P<ws>\s+)
 | (?P<comment>;.*$)
 | (?P<cstr>c"(?:[^"\\]|\\[0-9A-Fa-f]{2}|\\\\)*")
 | (?P<qid>[%@$]"(?:[^"\\]|\\.)*")
 | (?P<id>[%@$][-a-zA-Z$._0-9]+)
 | (?P<meta>![-a-zA-Z$._0-9]*)
 | (?P<attr>\#\d+)
 | (?P<float>-?\d+\.\d+(?:[eE][-+]?\d+)?|0x[KLMHR]?[0-9A-Fa-f]+)
 | (?P<int>-?\d+)
 | (?P<dots>\.\.\.)
 | (?P<word>[a-zA-Z_][a-zA-Z0-9_.]*)
 | (?P<str>"(?:[^"\\]|\\.)*")
 | (?P<punct>[{}\[\]()<>,*=:|])
''', re.X)


def tokenize(s):
    out = []
    pos = 0
    n = len(s)
    while pos < n:
        m = TOK.match(s, pos)
        if not m:
            raise SyntaxError("cannot tokenize at %r" % s[pos:pos + 40])
        pos = m.end()
        k = m.lastgroup
        if k in ('ws', 'comment'):
            continue
        out.append((k, m.group()))
    return out


class P:
    """token cursor"""

    def __init__(self, toks, line=''):
        self.t = toks
        self.i = 0
        self.line = line

    def peek(self, o=0):
        j = self.i + o
        return self.t[j] if j < len(self.t) else ('eof', '')

    def next(self):
        t = self.peek()
        self.i += 1
        return t

    def at(self, v):
        return self.peek()[1] == v

    def accept(self, v):
        if self.peek()[1] == v:
            self.i += 1
            return True
        return False

    def expect(self, v):
        t = self.next()
        if t[1] != v:
            raise SyntaxError("expected %r got %r in: %s" % (v, t, self.line[:300]))
        return t

    def eof(self):
        return self.i >= len(self.t)


# ----------------------------------------------------------------------------
# types: tuples
#   ('void',) ('int',N) ('fp',name) ('ptr',T) ('arr',N,T) ('struct',(T..),packed)
#   ('named',name) ('func',ret,(params),vararg) ('label',) ('metadata',) ('vec',N,T)
# ----------------------------------------------------------------------------
FP = {'half', 'bfloat', 'float', 'double', 'x86_fp80', 'fp128', 'ppc_fp128'}


def is_type_start(tok):
    k, v = tok
    if k == 'word':
        return v in ('void', 'label', 'metadata', 'token', 'opaque', 'ptr') or v in FP or re.fullmatch(r'i\d+', v) is not None
    if k in ('id', 'qid'):
        return v[0] == '%'
    return v in ('{', '[', '<')


def parse_type(p):
    k, v = p.next()
    if k == 'word':
        if v == 'void':
            t = ('void',)
        elif v in FP:
            t = ('fp', v)
        elif v == 'label':
            t = ('label',)
        elif v == 'metadata':
            t = ('metadata',)
        elif v == 'token':
            t = ('token',)
        elif v == 'opaque':
            t = ('opaque',)
        elif re.fullmatch(r'i\d+', v):
            t = ('int', int(v[1:]))
        else:
            raise SyntaxError("bad type word %r in %s" % (v, p.line[:200]))
    elif k in ('id', 'qid') and v[0] == '%':
        t = ('named', unquote(v[1:]))
    elif v == '{':
        fs = []
        if not p.accept('}'):
            while True:
                fs.append(parse_type(p))
                if p.accept('}'):
                    break
                p.expect(',')
        t = ('struct', tuple(fs), False)
    elif v == '<':
        if p.at('{'):
            p.next()
            fs = []
            if not p.accept('}'):
                while True:
                    fs.append(parse_type(p))
                    if p.accept('}'):
                        break
                    p.expect(',')
            p.expect('>')
            t = ('struct', tuple(fs), True)
        else:
            n = int(p.next()[1])
            p.expect('x')
            e = parse_type(p)
            p.expect('>')
            t = ('vec', n, e)
    elif v == '[':
        n = int(p.next()[1])
        p.expect('x')
        e = parse_type(p)
        p.expect(']')
        t = ('arr', n, e)
    else:
        raise SyntaxError("bad type start %r in %s" % (v, p.line[:200]))
    # suffixes
    while True:
        if p.at('*'):
            p.next()
            t = ('ptr', t)
        elif p.at('addrspace'):
            p.next(); p.expect('('); p.next(); p.expect(')')
        elif p.at('('):
            p.next()
            ps = []
            va = False
            if not p.accept(')'):
                while True:
                    if p.at('...'):
                        p.next()
                        va = True
                    else:
                        ps.append(parse_type(p))
                        skip_param_attrs(p)
                    if p.accept(')'):
                        break
                    p.expect(',')
            t = ('func', t, tuple(ps), va)
        else:
            break
    return t


def unquote(s):
    if s.startswith('"'):
        s = s[1:-1]
        s = re.sub(r'\\([0-9A-Fa-f]{2})', lambda m: chr(int(m.group(1), 16)), s)
    return s


PARAM_ATTR_PAREN = {'dereferenceable', 'dereferenceable_or_null', 'sret', 'byval', 'byref', 'inalloca',
                    'preallocated', 'elementtype', 'align', 'allocsize', 'vscale_range'}


VALUE_WORDS = {'to', 'x', 'true', 'false', 'null', 'undef', 'poison', 'zeroinitializer', 'none', 'getelementptr',
               'icmp', 'fcmp', 'select', 'dso_local_equivalent', 'blockaddress', 'asm', 'bitcast', 'inttoptr',
               'ptrtoint', 'trunc', 'zext', 'sext', 'addrspacecast', 'fptoui', 'fptosi', 'uitofp', 'sitofp', 'fpext',
               'fptrunc', 'add', 'sub', 'mul', 'udiv', 'sdiv', 'urem', 'srem', 'and', 'or', 'xor', 'shl', 'lshr',
               'ashr', 'fadd', 'fsub', 'fmul', 'fdiv', 'frem', 'label', 'unwind'}


def skip_param_attrs(p, collect=None):
    """skip attribute words after a type (or before ret type). collects byval/sret types."""
    while True:
        k, v = p.peek()
        if k == 'word' and not is_type_start((k, v)) and v not in VALUE_WORDS:
            p.next()
            if v == 'align' and p.peek()[0] == 'int':
                p.next()
            elif p.at('(') and v in PARAM_ATTR_PAREN:
                p.next()
                if v in ('byval', 'sret', 'byref', 'inalloca', 'preallocated', 'elementtype'):
                    ty = parse_type(p)
                    if collect is not None:
                        collect[v] = ty
                else:
                    if collect is not None and p.peek()[0] == 'int':
                        collect[v] = int(p.peek()[1])
                    while not p.at(')'):
                        p.next()
                p.expect(')')
            else:
                if collect is not None:
                    collect[v] = True
        elif k == 'attr':
            p.next()
        else:
            break


# ----------------------------------------------------------------------------
# values
#  ('int',v) ('null',) ('undef',) ('zero',) ('local',name) ('global',name)
#  ('cstr',bytes) ('agg',[(T,V)...],kind) ('cexpr',op,...) ('fp',text) ('bool',0/1)
# ----------------------------------------------------------------------------
CAST_OPS = {'bitcast', 'inttoptr', 'ptrtoint', 'trunc', 'zext', 'sext', 'addrspacecast', 'fptoui', 'fptosi', 'uitofp',
            'sitofp', 'fpext', 'fptrunc'}
BIN_OPS = {'add', 'sub', 'mul', 'udiv', 'sdiv', 'urem', 'srem', 'and', 'or', 'xor', 'shl', 'lshr', 'ashr',
           'fadd', 'fsub', 'fmul', 'fdiv', 'frem'}


def parse_cstr(v):
    body = v[2:-1]
    out = bytearray()
    i = 0
    while i < len(body):
        c = body[i]
        if c == '\\':
            if body[i + 1] == '\\':
                out.append(92)
                i += 2
            else:
                out.append(int(body[i + 1:i + 3], 16))
                i += 3
        else:
            out.append(ord(c))
            i += 1
    return bytes(out)


def parse_typed_value(p):
    t = parse_type(p)
    skip_param_attrs(p)
    v = parse_value(p, t)
    return t, v


def parse_value(p, ty):
    k, v = p.next()
    if k == 'int':
        return ('int', int(v))
    if k == 'float':
        return ('fp', v)
    if k in ('id', 'qid'):
        if v[0] == '%':
            return ('local', unquote(v[1:]))
        if v[0] == '@':
            return ('global', unquote(v[1:]))
    if k == 'cstr':
        return ('cstr', parse_cstr(v))
    if k == 'word':
        if v == 'true':
            return ('int', 1)
        if v == 'false':
            return ('int', 0)
        if v == 'null':
            return ('null',)
        if v in ('undef', 'poison'):
            return ('undef',)
        if v == 'zeroinitializer':
            return ('zero',)
        if v == 'none':
            return ('null',)
        if v == 'getelementptr':
            p.accept('inbounds')
            p.expect('(')
            bt = parse_type(p)
            p.expect(',')
            ops = []
            while True:
                p.accept('inrange')
                ops.append(parse_typed_value(p))
                if p.accept(')'):
                    break
                p.expect(',')
            return ('cexpr', 'gep', bt, ops)
        if v in CAST_OPS:
            p.expect('(')
            tv = parse_typed_value(p)
            p.expect('to')
            t2 = parse_type(p)
            p.expect(')')
            return ('cexpr', 'cast', v, tv, t2)
        if v in BIN_OPS:
            while p.peek()[1] in ('nsw', 'nuw', 'exact'):
                p.next()
            p.expect('(')
            a = parse_typed_value(p)
            p.expect(',')
            b = parse_typed_value(p)
            p.expect(')')
            return ('cexpr', 'bin', v, a, b)
        if v == 'icmp':
            pred = p.next()[1]
            p.expect('(')
            a = parse_typed_value(p)
            p.expect(',')
            b = parse_typed_value(p)
            p.expect(')')
            return ('cexpr', 'icmp', pred, a, b)
        if v == 'select':
            p.expect('(')
            c = parse_typed_value(p); p.expect(',')
            a = parse_typed_value(p); p.expect(',')
            b = parse_typed_value(p); p.expect(')')
            return ('cexpr', 'select', c, a, b)
        if v == 'dso_local_equivalent':
            return parse_value(p, ty)
    if v == '{' or v == '[':
        close = '}' if v == '{' else ']'
        els = []
        if not p.accept(close):
            while True:
                els.append(parse_typed_value(p))
                if p.accept(close):
                    break
                p.expect(',')
        return ('agg', els, v)
    if v == '<':
        if p.at('{'):
            p.next()
            els = []
            if not p.accept('}'):
                while True:
                    els.append(parse_typed_value(p))
                    if p.accept('}'):
                        break
                    p.expect(',')
            p.expect('>')
            return ('agg', els, '{')
        els = []
        while True:
            els.append(parse_typed_value(p))
            if p.accept('>'):
                break
            p.expect(',')
        return ('agg', els, '<')
    raise SyntaxError("bad value %r %r in %s" % (k, v, p.line[:300]))


# ----------------------------------------------------------------------------
# module
# ----------------------------------------------------------------------------
class Func:
    def __init__(self):
        self.name = None
        self.ret = None
        self.params = []  # (type, name, attrs)
        self.vararg = False
        self.blocks = []  # (label, [instr])
        self.defined = False
        self.linkage = ''
        self.lines = []

    @property
    def ftype(self):
        return ('func', self.ret, tuple(t for t, _, _ in self.params), self.vararg)


class Global:
    def __init__(self):
        self.name = None
        self.ty = None
        self.init = None
        self.external = False
        self.constant = False
        self.thread_local = False


LINKAGE_WORDS = {'private', 'internal', 'available_externally', 'linkonce', 'weak', 'common', 'appending',
                 'extern_weak', 'linkonce_odr', 'weak_odr', 'external', 'dso_local', 'dso_preemptable', 'default',
                 'hidden', 'protected', 'dllimport', 'dllexport', 'unnamed_addr', 'local_unnamed_addr',
                 'externally_initialized', 'thread_local'}


class Module:
    def __init__(self):
        self.types = {}  # name -> type tuple or ('opaque',)
        self.globals = {}
        self.funcs = {}
        self.aliases = {}  # name -> (type, target value)

    def parse(self, text):
        lines = text.split('\n')
        i = 0
        n = len(lines)
        while i < n:
            ln = lines[i]
            i += 1
            if not ln or ln[0] in ';!' or ln.startswith(('source_filename', 'target ', 'attributes ', '$', 'module asm')):
                continue
            if ln.startswith('%'):
                m = re.match(r'(%(?:"(?:[^"\\]|\\.)*"|[-a-zA-Z$._0-9]+)) = type (.*)$', ln)
                name = unquote(m.group(1)[1:])
                body = m.group(2).strip()
                if body == 'opaque':
                    self.types[name] = ('opaque',)
                else:
                    self.types[name] = parse_type(P(tokenize(body), ln))
                continue
            if ln.startswith('@'):
                self.parse_global(ln)
                continue
            if ln.startswith('declare'):
                f = self.parse_fn_header(ln)
                self.funcs.setdefault(f.name, f)
                continue
            if ln.startswith('define'):
                f = self.parse_fn_header(ln)
                f.defined = True
                body = []
                while lines[i] != '}':
                    body.append(lines[i])
                    i += 1
                i += 1
                f.lines = body
                self.funcs[f.name] = f
                continue
            raise SyntaxError("unknown toplevel: " + ln[:200])

    def parse_global(self, ln):
        # strip trailing metadata / attrs robustly: tokenise whole line
        p = P(tokenize(ln), ln)
        name = unquote(p.next()[1][1:])
        p.expect('=')
        g = Global()
        g.name = name
        kind = None
        while True:
            k, v = p.peek()
            if v in LINKAGE_WORDS:
                p.next()
                if v in ('external', 'extern_weak'):
                    g.external = True
                if v == 'thread_local':
                    g.thread_local = True
                    if p.at('('):
                        p.next(); p.next(); p.expect(')')
                continue
            if v == 'addrspace':
                p.next(); p.expect('('); p.next(); p.expect(')')
                continue
            if v in ('global', 'constant', 'alias', 'ifunc'):
                kind = v
                p.next()
                break
            raise SyntaxError("global: unexpected %r in %s" % (v, ln[:200]))
        if kind in ('alias', 'ifunc'):
            t = parse_type(p)
            p.expect(',')
            if p.peek()[1] in ('bitcast', 'getelementptr', 'addrspacecast', 'inttoptr'):
                # aliasee given as a constant expression without a leading type
                pt = ('ptr', t)
                tv = (pt, parse_value(p, pt))
            else:
                tv = parse_typed_value(p)
            self.aliases[name] = (t, tv)
            return
        g.constant = kind == 'constant'
        g.ty = parse_type(p)
        if not g.external and not p.eof() and not p.at(','):
            g.init = parse_value(p, g.ty)
        self.globals[name] = g

    def parse_fn_header(self, ln):
        p = P(tokenize(ln), ln)
        p.next()  # define/declare
        f = Func()
        # skip linkage etc & return attrs until type start
        f.ret_attrs = {}
        while not is_type_start(p.peek()):
            k, v = p.next()
            if v in ('internal', 'private', 'linkonce_odr', 'weak_odr', 'available_externally', 'weak', 'linkonce'):
                f.linkage = v
            if v in ('nonnull', 'noalias'):
                f.ret_attrs[v] = True
            if p.at('(') and v in PARAM_ATTR_PAREN:
                p.next()
                if p.peek()[0] == 'int':
                    f.ret_attrs[v] = int(p.peek()[1])
                while not p.at(')'):
                    p.next()
                p.expect(')')
            if v == 'align' and p.peek()[0] == 'int':
                p.next()
        # return type: careful - parse_type would swallow '(' params as func type suffix.
        f.ret = parse_ret_type(p)
        f.name = unquote(p.next()[1][1:])
        p.expect('(')
        if not p.accept(')'):
            idx = 0
            while True:
                if p.at('...'):
                    p.next()
                    f.vararg = True
                else:
                    t = parse_type(p)
                    attrs = {}
                    skip_param_attrs(p, attrs)
                    nm = None
                    if p.peek()[0] in ('id', 'qid') and p.peek()[1][0] == '%':
                        nm = unquote(p.next()[1][1:])
                    f.params.append((t, nm, attrs))
                if p.accept(')'):
                    break
                p.expect(',')
        # unnamed params numbering
        cnt = 0
        ps = []
        for t, nm, a in f.params:
            if nm is None:
                nm = str(cnt)
                cnt += 1
            elif nm.isdigit():
                cnt = int(nm) + 1
            ps.append((t, nm, a))
        f.params = ps
        f.next_unnamed = cnt
        return f


def parse_ret_type(p):
    """parse a type but do not treat a following '(' as function-type suffix unless followed by '*'."""
    # we parse base type manually by scanning tokens: find matching close for the function args later.
    # Strategy: parse_type greedy, then if result is ('func',...) and next token is an id starting with @, fine?
    # Greedy parse would consume "@name" failing.  So parse base + only '*' suffixes, with lookahead for '(' ... ')' '*'.
    save = p.i
    k, v = p.peek()
    # parse base using parse_type on a limited cursor: temporarily hide '(' by custom loop
    t = _parse_type_nofunc(p)
    return t


def _parse_type_nofunc(p):
    k, v = p.peek()
    # reuse parse_type but guard '(': emulate by checking whether '(' begins a function-pointer type: it does
    # iff the matching ')' is followed by '*'.
    # Implementation: parse base via parse_type on sub-token list up to first top-level '(' not followed..., simpler:
    start = p.i
    # find end of base type tokens: parse greedily but stop suffix loop manually
    # -> copy of parse_type base part:
    sub = P(p.t, p.line)
    sub.i = p.i
    # monkey: parse base by calling parse_type on a token slice that ends before first '(' at depth 0
    depth = 0
    j = p.i
    while j < len(p.t):
        tv = p.t[j][1]
        if tv in ('{', '[', '<'):
            depth += 1
        elif tv in ('}', ']', '>'):
            depth -= 1
        elif tv == '(' and depth == 0:
            # is this a function pointer type?  find matching ')'
            d2 = 0
            m = j
            while True:
                if p.t[m][1] == '(':
                    d2 += 1
                elif p.t[m][1] == ')':
                    d2 -= 1
                    if d2 == 0:
                        break
                m += 1
            if m + 1 < len(p.t) and p.t[m + 1][1] == '*':
                j = m + 1
                continue
            break
        elif depth == 0 and p.t[j][0] in ('id', 'qid') and p.t[j][1][0] == '@':
            break
        j += 1
    q = P(p.t[p.i:j], p.line)
    t = parse_type(q)
    p.i = p.i + q.i
    return t


# ----------------------------------------------------------------------------
# instruction parsing (per function, lazily)
# ----------------------------------------------------------------------------
class Ins:
    __slots__ = ('res', 'op', 'a', 'ty', 'line')

    def __init__(self, res, op, ty=None, **a):
        self.res = res
        self.op = op
        self.ty = ty
        self.a = a


META_TAIL = re.compile(r'(, ![-a-zA-Z$._0-9]+ ![0-9]+)+\s*$')


def parse_call_like(p):
    """after 'call'/'invoke' keyword & fast-math/cc: returns (retty, callee_value, fnty_or_None, args)"""
    # skip cconv and ret attrs
    while not is_type_start(p.peek()):
        k, v = p.next()
        if p.at('(') and v in PARAM_ATTR_PAREN:
            p.next()
            while not p.at(')'):
                p.next()
            p.expect(')')
        if v == 'align' and p.peek()[0] == 'int':
            p.next()
    rt = _parse_call_ret_type(p)
    fnty = None
    if rt[0] == 'func':
        fnty = rt
        rt = fnty[1]
    callee = parse_value(p, None)
    p.expect('(')
    args = []
    if not p.accept(')'):
        while True:
            t = parse_type(p)
            attrs = {}
            skip_param_attrs(p, attrs)
            if t == ('metadata',):
                # metadata arg: skip tokens to , or )
                depth = 0
                while not ((p.at(',') or p.at(')')) and depth == 0):
                    tv = p.next()[1]
                    if tv == '(':
                        depth += 1
                    elif tv == ')':
                        depth -= 1
                args.append((t, ('undef',), attrs))
            else:
                v = parse_value(p, t)
                args.append((t, v, attrs))
            if p.accept(')'):
                break
            p.expect(',')
    return rt, callee, fnty, args


def _parse_call_ret_type(p):
    """In calls, the type is either the return type, or the full function type (for varargs/fn-ptr returns),
    followed by the callee value (%x, @f, or constant expr 'bitcast (...)')."""
    # find the callee token position: first top-level token that is a local/global id or 'bitcast'/'inttoptr'
    # word or 'asm', scanning with depth tracking; function types have '(' ... ')' groups.
    depth = 0
    j = p.i
    while j < len(p.t):
        k, v = p.t[j]
        if v in ('(', '{', '[', '<'):
            depth += 1
        elif v in (')', '}', ']', '>'):
            depth -= 1
        elif depth == 0:
            if k in ('id', 'qid') and v[0] == '@':
                break
            if k in ('id', 'qid') and v[0] == '%':
                # could be a named type (start of type) or a local callee.  A local callee is directly followed
                # by '(' and preceded by a complete type.  Named type as first token: j == p.i.
                if j != p.i and j + 1 < len(p.t) and p.t[j + 1][1] == '(' and p.t[j - 1][1] != ',':
                    # previous token ends a type ('*', ')', word, id) -> this is callee
                    break
            if k == 'word' and v in ('bitcast', 'inttoptr', 'asm', 'getelementptr') and j != p.i:
                break
        j += 1
    q = P(p.t[p.i:j], p.line)
    t = parse_type(q)
    if not q.eof():
        raise SyntaxError("call type parse leftover in %s" % p.line[:300])
    p.i = j
    return t


def parse_instr(line):
    raw = line
    line = META_TAIL.sub('', line)
    p = P(tokenize(line), raw)
    res = None
    if p.peek(1)[1] == '=' and p.peek()[0] in ('id', 'qid'):
        res = unquote(p.next()[1][1:])
        p.next()
    op = p.next()[1]
    if op in ('tail', 'musttail', 'notail'):
        op = p.next()[1]
    if op in BIN_OPS:
        flags = set()
        while p.peek()[1] in ('nsw', 'nuw', 'exact', 'fast', 'nnan', 'ninf', 'nsz', 'arcp', 'contract', 'afn', 'reassoc'):
            flags.add(p.next()[1])
        t = parse_type(p)
        a = parse_value(p, t)
        p.expect(',')
        b = parse_value(p, t)
        return Ins(res, 'bin', t, bop=op, x=a, y=b, flags=flags)
    if op == 'fneg':
        while p.peek()[1] in ('fast', 'nnan', 'ninf', 'nsz', 'arcp', 'contract', 'afn', 'reassoc'):
            p.next()
        t = parse_type(p)
        a = parse_value(p, t)
        return Ins(res, 'fneg', t, x=a)
    if op in ('icmp', 'fcmp'):
        while p.peek()[1] in ('fast', 'nnan', 'ninf', 'nsz', 'arcp', 'contract', 'afn', 'reassoc'):
            p.next()
        pred = p.next()[1]
        t = parse_type(p)
        a = parse_value(p, t)
        p.expect(',')
        b = parse_value(p, t)
        return Ins(res, op, ('int', 1), pred=pred, oty=t, x=a, y=b)
    if op in CAST_OPS:
        t, v = parse_typed_value(p)
        p.expect('to')
        t2 = parse_type(p)
        return Ins(res, 'cast', t2, cop=op, fty=t, x=v)
    if op == 'alloca':
        p.accept('inalloca')
        t = parse_type(p)
        cnt = None
        if p.accept(','):
            if p.at('align'):
                pass
            else:
                ct, cv = parse_typed_value(p)
                cnt = (ct, cv)
        return Ins(res, 'alloca', ('ptr', t), aty=t, cnt=cnt)
    if op == 'load':
        p.accept('atomic')
        p.accept('volatile')
        t = parse_type(p)
        p.expect(',')
        pt, pv = parse_typed_value(p)
        return Ins(res, 'load', t, pty=pt, ptr=pv)
    if op == 'store':
        p.accept('atomic')
        p.accept('volatile')
        t, v = parse_typed_value(p)
        p.expect(',')
        pt, pv = parse_typed_value(p)
        return Ins(None, 'store', None, vty=t, val=v, pty=pt, ptr=pv)
    if op == 'getelementptr':
        p.accept('inbounds')
        bt = parse_type(p)
        p.expect(',')
        ops = []
        while True:
            ops.append(parse_typed_value(p))
            if not p.accept(','):
                break
        return Ins(res, 'gep', None, bty=bt, ops=ops)
    if op == 'phi':
        t = parse_type(p)
        inc = []
        while True:
            p.expect('[')
            v = parse_value(p, t)
            p.expect(',')
            lbl = unquote(p.next()[1][1:])
            p.expect(']')
            inc.append((v, lbl))
            if not p.accept(','):
                break
        return Ins(res, 'phi', t, inc=inc)
    if op == 'select':
        ct, cv = parse_typed_value(p)
        p.expect(',')
        t, a = parse_typed_value(p)
        p.expect(',')
        t2, b = parse_typed_value(p)
        return Ins(res, 'select', t, c=cv, x=a, y=b)
    if op == 'call':
        while p.peek()[1] in ('fast', 'nnan', 'ninf', 'nsz', 'arcp', 'contract', 'afn', 'reassoc'):
            p.next()
        rt, callee, fnty, args = parse_call_like(p)
        return Ins(res, 'call', rt, callee=callee, fnty=fnty, args=args)
    if op == 'invoke':
        rt, callee, fnty, args = parse_call_like(p)
        # skip fn attrs until 'to'
        while not p.at('to'):
            if p.eof():
                raise SyntaxError("invoke without 'to': " + raw[:200])
            p.next()
        p.expect('to')
        p.expect('label')
        ok = unquote(p.next()[1][1:])
        p.expect('unwind')
        p.expect('label')
        uw = unquote(p.next()[1][1:])
        return Ins(res, 'invoke', rt, callee=callee, fnty=fnty, args=args, ok=ok, unwind=uw)
    if op == 'br':
        if p.accept('label'):
            return Ins(None, 'br', None, dest=unquote(p.next()[1][1:]))
        t, c = parse_typed_value(p)
        p.expect(','); p.expect('label')
        a = unquote(p.next()[1][1:])
        p.expect(','); p.expect('label')
        b = unquote(p.next()[1][1:])
        return Ins(None, 'condbr', None, c=c, t=a, f=b)
    if op == 'switch':
        t, v = parse_typed_value(p)
        p.expect(','); p.expect('label')
        d = unquote(p.next()[1][1:])
        p.expect('[')
        cases = []
        while not p.accept(']'):
            ct, cv = parse_typed_value(p)
            p.expect(','); p.expect('label')
            cases.append((cv, unquote(p.next()[1][1:])))
        return Ins(None, 'switch', None, vty=t, v=v, default=d, cases=cases)
    if op == 'ret':
        t = parse_type(p)
        if t == ('void',):
            return Ins(None, 'ret', None, v=None, vty=t)
        skip_param_attrs(p)
        v = parse_value(p, t)
        return Ins(None, 'ret', None, v=v, vty=t)
    if op == 'unreachable':
        return Ins(None, 'unreachable')
    if op == 'resume':
        return Ins(None, 'resume')
    if op == 'landingpad':
        t = parse_type(p)
        return Ins(res, 'landingpad', t)
    if op == 'extractvalue':
        t, v = parse_typed_value(p)
        idx = []
        while p.accept(','):
            idx.append(int(p.next()[1]))
        return Ins(res, 'extractvalue', None, aty=t, agg=v, idx=idx)
    if op == 'insertvalue':
        t, v = parse_typed_value(p)
        p.expect(',')
        et, ev = parse_typed_value(p)
        idx = []
        while p.accept(','):
            idx.append(int(p.next()[1]))
        return Ins(res, 'insertvalue', t, agg=v, ety=et, ev=ev, idx=idx)
    if op == 'atomicrmw':
        p.accept('volatile')
        rop = p.next()[1]
        pt, pv = parse_typed_value(p)
        p.expect(',')
        t, v = parse_typed_value(p)
        return Ins(res, 'atomicrmw', t, rop=rop, ptr=pv, pty=pt, v=v)
    if op == 'cmpxchg':
        p.accept('weak')
        p.accept('volatile')
        pt, pv = parse_typed_value(p)
        p.expect(',')
        t, c = parse_typed_value(p)
        p.expect(',')
        t2, n = parse_typed_value(p)
        return Ins(res, 'cmpxchg', ('struct', (t, ('int', 1)), False), ptr=pv, pty=pt, cmp=c, new=n, vty=t)
    if op == 'fence':
        return Ins(None, 'nop')
    if op == 'freeze':
        t, v = parse_typed_value(p)
        return Ins(res, 'freeze', t, x=v)
    if op == 'va_arg':
        pt, pv = parse_typed_value(p)
        p.expect(',')
        t = parse_type(p)
        return Ins(res, 'va_arg', t, ptr=pv)
    raise SyntaxError("unknown instruction %r: %s" % (op, raw[:200]))


def parse_body(f):
    blocks = []
    cur = None
    label = None
    for ln in f.lines:
        s = ln.strip()
        if not s or s.startswith(';'):
            continue
        m = re.match(r'^("(?:[^"\\]|\\.)*"|[-a-zA-Z$._0-9]+):', ln)
        if m and not ln.startswith(' '):
            label = unquote(m.group(1))
            cur = []
            blocks.append((label, cur))
            continue
        if cur is None:
            label = str(f.next_unnamed)
            cur = []
            blocks.append((label, cur))
        if s.startswith(('catch ', 'cleanup', 'filter ')):
            continue
        if s.startswith('to label ') and cur:
            cur[-1] += ' ' + s
            continue
        # switch statements span lines
        cur.append(s)
    # join multi-line switch
    out = []
    for label, lines in blocks:
        merged = []
        acc = None
        for s in lines:
            if acc is not None:
                acc += ' ' + s
                if s.startswith(']'):
                    merged.append(acc)
                    acc = None
                continue
            if s.startswith('switch ') and not s.rstrip().endswith(']'):
                acc = s
                continue
            merged.append(s)
        ins = []
        for s in merged:
            try:
                ins.append(parse_instr(s))
            except Exception as e:
                raise SyntaxError("in %s: %s\n  %s" % (f.name, e, s[:300]))
        out.append((label, ins))
    f.blocks = out


# ----------------------------------------------------------------------------
# C emission
# ----------------------------------------------------------------------------
def san(s):
    return re.sub(r'[^A-Za-z0-9_]', '_', s)


STD_INT = {1: 'u8', 8: 'u8', 16: 'u16', 32: 'u32', 64: 'u64', 128: 'u128'}
SINT = {1: 'int8_t', 8: 'int8_t', 16: 'int16_t', 32: 'int32_t', 64: 'int64_t', 128: 'i128'}


def round_width(n):
    for w in (8, 16, 32, 64, 128):
        if n <= w:
            return w
    raise ValueError("int width %d" % n)


PRELUDE = r'''
#include <stdint.h>
#include <stddef.h>
#include <string.h>
#include <stdlib.h>
typedef uint8_t u8; typedef uint16_t u16; typedef uint32_t u32; typedef uint64_t u64;
typedef unsigned __int128 u128; typedef __int128 i128;
#ifndef VERIF_RT
#define VERIF_RT
void __verif_abort(void);
void __verif_throw(void);
void __verif_unreachable(void);
void __verif_exit(u32 code);
u8 *__verif_new_var(u64 n);
void __verif_new_bound(u64 n, u64 max);
#ifndef VERIF_NEW_ELEMS
#define VERIF_NEW_ELEMS 8
#endif
/* operator new(n) whose result is used as T[]: one typed block of VERIF_NEW_ELEMS elements (constant size) */
#define VERIF_NEW_VAR(T, n) (__verif_new_bound((n), sizeof(T) * VERIF_NEW_ELEMS), malloc(sizeof(T) * VERIF_NEW_ELEMS))
#if defined(VERIF_NATIVE) && !defined(__CPROVER_assume)
/* native (gcc) build of the translated unit only: allocation-success assumes are no-ops.
   Under goto-cc/cbmc __CPROVER_assume is the built-in and must never be macro-defined away. */
#define __CPROVER_assume(c) do { } while (0)
#endif
#endif
'''


class Emitter:
    def __init__(self, mod, opts):
        self.m = mod
        self.opts = opts
        self.tnames = {}  # type tuple -> C name
        self.tdecl = []  # ordered typedef/struct text
        self.struct_state = {}  # key -> 'fwd'|'visiting'|'done'
        self.named_c = {}  # llvm struct name -> C struct tag
        self.used_tags = set()
        self.gname = {}  # llvm global/function name -> C identifier
        self.used_g = set()
        self.lit_cnt = 0
        self.fwd = []

    # ---- names
    def cident(self, name):
        if name in self.gname:
            return self.gname[name]
        c = san(name)
        if c[0].isdigit() or c in C_RESERVED:
            c = 'g_' + c
        if c == 'main':
            c = 'real_main'
        base = c
        k = 1
        while c in self.used_g:
            k += 1
            c = "%s_%d" % (base, k)
        self.used_g.add(c)
        self.gname[name] = c
        return c

    def tag(self, name):
        if name in self.named_c:
            return self.named_c[name]
        c = san(name)
        base = c
        k = 1
        while c in self.used_tags:
            k += 1
            c = "%s_%d" % (base, k)
        self.used_tags.add(c)
        self.named_c[name] = c
        return c

    # ---- types
    def ct(self, t):
        """C type name usable in declarations `<name> x`"""
        if t in self.tnames:
            return self.tnames[t]
        k = t[0]
        if k == 'void':
            r = 'void'
        elif k == 'int':
            r = STD_INT[round_width(t[1])] if t[1] != 1 else 'u8'
        elif k == 'fp':
            r = {'float': 'float', 'double': 'double', 'x86_fp80': 'long double', 'fp128': 'long double', 'half': 'float'}[t[1]]
        elif k == 'named':
            tg = self.tag(t[1])
            r = 'struct ' + tg
            if t[1] not in self.struct_state:
                self.struct_state[t[1]] = 'fwd'
                self.fwd.append('struct %s;' % tg)
        elif k == 'struct':
            self.lit_cnt += 1
            tg = 'lit%d' % self.lit_cnt
            r = 'struct ' + tg
            self.tnames[t] = r
            self.fwd.append('struct %s;' % tg)
            self.struct_state[t] = ('lit', tg)
        elif k == 'ptr':
            e = t[1]
            if e[0] == 'func':
                fn = self.ct(e)
                r = 'P' + fn
                self.tnames[t] = r
                self.tdecl.append('typedef %s *%s;' % (fn, r))
            elif e[0] in ('void',):
                r = 'void*'
            elif e[0] == 'arr':
                en = self.ct(e)
                r = 'P' + san(en)
                self.tnames[t] = r
                self.tdecl.append('typedef %s *%s;' % (en, r))
            else:
                en = self.ct(e)
                r = en + '*'
        elif k == 'arr':
            self.complete(t[2])
            en = self.ct(t[2])
            r = 'A%d_%s' % (t[1], san(en).replace('__', '_'))
            r = self.uniq_t(r)
            self.tnames[t] = r
            self.tdecl.append('typedef %s %s[%d];' % (en, r, t[1]))
        elif k == 'func':
            rn = self.ct(t[1])
            ps = [self.ct(x) for x in t[2]]
            nm = self.uniq_t('F%d' % (len(self.tnames)))
            self.tnames[t] = nm
            if t[3] and ps:
                ps.append('...')
            if not ps:
                # `T (...)` (the vtable slot type i32 (...)*) is not C before C23: unprototyped function type
                ps = [] if t[3] else ['void']
            self.tdecl.append('typedef %s %s(%s);' % (rn, nm, ', '.join(ps)))
            r = nm
        elif k == 'vec':
            raise NotImplementedError("vector type %r" % (t,))
        elif k in ('label', 'metadata', 'token'):
            r = 'void'
        elif k == 'opaque':
            r = 'void'
        else:
            raise NotImplementedError(t)
        self.tnames[t] = r
        return r

    def uniq_t(self, r):
        base = r
        k = 1
        while r in self.used_tags:
            k += 1
            r = '%s_%d' % (base, k)
        self.used_tags.add(r)
        return r

    def complete(self, t):
        """make sure type t is complete (struct bodies emitted) at this point of tdecl"""
        k = t[0]
        if k == 'named':
            self.ct(t)
            st = self.struct_state.get(t[1])
            if st in ('done', 'visiting'):
                return
            body = self.m.types.get(t[1])
            if body is None or body[0] == 'opaque':
                self.struct_state[t[1]] = 'done'
                return
            self.struct_state[t[1]] = 'visiting'
            self.emit_struct(self.tag(t[1]), body)
            self.struct_state[t[1]] = 'done'
        elif k == 'struct':
            self.ct(t)
            st = self.struct_state.get(t)
            if st == 'done' or st == 'visiting':
                return
            tg = st[1]
            self.struct_state[t] = 'visiting'
            self.emit_struct(tg, t)
            self.struct_state[t] = 'done'
        elif k == 'arr':
            self.complete(t[2])
            self.ct(t)
        elif k == 'ptr':
            self.ct(t)
        elif k == 'func':
            self.ct(t)

    def emit_struct(self, tg, body):
        fields = body[1]
        for ft in fields:
            self.complete(ft)
        lines = []
        for i, ft in enumerate(fields):
            lines.append('  %s f%d;' % (self.ct(ft), i))
        packed = ' __attribute__((packed))' if body[2] else ''
        self.tdecl.append('struct %s {\n%s\n}%s;' % (tg, '\n'.join(lines), packed))

    def size_align(self, t):
        k = t[0]
        if k == 'int':
            w = round_width(t[1]) // 8
            return w, min(w, 8) if w < 16 else 16
        if k == 'ptr':
            return 8, 8
        if k == 'fp':
            return {'float': (4, 4), 'double': (8, 8), 'half': (2, 2)}.get(t[1], (16, 16))
        if k == 'arr':
            s_, a_ = self.size_align(t[2])
            return s_ * t[1], a_
        if k == 'named':
            b = self.m.types.get(t[1])
            if b is None or b[0] == 'opaque':
                raise NotImplementedError('sizeof opaque ' + t[1])
            return self.size_align(b)
        if k == 'struct':
            off = 0
            al = 1
            for ft in t[1]:
                s_, a_ = self.size_align(ft)
                if t[2]:
                    a_ = 1
                off = (off + a_ - 1) // a_ * a_
                off += s_
                al = max(al, a_)
            off = (off + al - 1) // al * al
            return off, al
        raise NotImplementedError('sizeof %r' % (t,))

    def resolve(self, t):
        while t[0] == 'named':
            b = self.m.types.get(t[1])
            if b is None:
                return ('opaque',)
            t = b
        return t


C_RESERVED = {'auto', 'break', 'case', 'char', 'const', 'continue', 'default', 'do', 'double', 'else', 'enum',
              'extern', 'float', 'for', 'goto', 'if', 'int', 'long', 'register', 'return', 'short', 'signed',
              'sizeof', 'static', 'struct', 'switch', 'typedef', 'union', 'unsigned', 'void', 'volatile', 'while',
              'inline', 'restrict', 'main', 'stat', 'time', 'abs', 'free', 'malloc', 'system'}
C_RESERVED -= {'main', 'stat', 'time', 'abs', 'free', 'malloc', 'system'}

LIBC = {'free', 'malloc', 'calloc', 'realloc', 'atoi', 'atol', 'strtoull', 'strtoll', 'strtol', 'strtoul', 'getenv',
        'system', 'rand', 'srand', 'realpath', 'mkstemp', 'mkdtemp', 'memcmp', 'strcmp', 'strlen', 'strstr', 'strdup',
        'memchr', 'strncmp', 'strchr', 'strrchr', 'strerror', 'memcpy', 'memmove', 'memset', 'qsort', 'bsearch',
        'abs', 'labs', 'strcpy', 'strncpy', 'strcat', 'strncat', 'strtod', 'strtok', 'strcasecmp', 'strncasecmp',
        'strcoll', 'strspn', 'strcspn', 'strpbrk', 'strnlen', 'strndup', 'mempcpy', 'stpcpy'}
ABORTING = {'abort': '__verif_abort()', 'exit': '__verif_exit(%s)', '_exit': '__verif_exit(%s)',
            '_Exit': '__verif_exit(%s)'}

INTRINSIC_SKIP = ('llvm.lifetime.', 'llvm.dbg.', 'llvm.assume', 'llvm.experimental.noalias', 'llvm.invariant.',
                  'llvm.stackrestore', 'llvm.donothing', 'llvm.var.annotation', 'llvm.prefetch')


class FnEmitter:
    def __init__(self, em, f):
        self.em = em
        self.f = f
        self.m = em.m
        self.vt = {}  # local name -> type
        self.out = []
        self.decls = []
        self.tmp = 0

    def lname(self, n):
        return 'v' + san(n) if not n[0].isdigit() else 'v' + n

    def label(self, n):
        return 'L' + san(n)

    # ---- type inference for results
    def gep_type(self, bty, ops):
        t = bty
        for (it, iv) in ops[2:] if False else ops[1:][1:]:
            pass
        return None

    def idx_type(self, bty, idxs):
        """type after applying gep indices idxs (list of (type,value)) to base pointee type bty (first idx skipped)."""
        t = bty
        for (it, iv) in idxs[1:]:
            rt = self.em.resolve(t)
            if rt[0] == 'struct':
                t = rt[1][iv[1]]
            elif rt[0] == 'arr':
                t = rt[2]
            elif rt[0] == 'vec':
                t = rt[2]
            else:
                raise NotImplementedError("gep into %r" % (rt,))
        return t

    # ---- values
    def val(self, v, t):
        """C expression for value v of type t"""
        k = v[0]
        if k == 'int':
            if t and t[0] == 'int':
                w = t[1]
                x = v[1] & ((1 << w) - 1)
                if w == 1:
                    return '%d' % x
                if w > 64:
                    hi = x >> 64
                    lo = x & ((1 << 64) - 1)
                    return '((((u128)%dULL)<<64)|(u128)%dULL)' % (hi, lo)
                return '((%s)%dULL)' % (self.em.ct(t), x)
            return str(v[1])
        if k == 'local':
            return self.lname(v[1])
        if k == 'global':
            return self.em_global_ref(v[1])
        if k == 'null':
            return '((%s)0)' % self.em.ct(t)
        if k == 'undef':
            return self.undef(t)
        if k == 'zero':
            return self.zero(t)
        if k == 'fp':
            return self.fpconst(v[1], t)
        if k == 'cexpr':
            return self.cexpr(v, t)
        if k == 'agg':
            # aggregate constant as compound literal
            self.em.complete(t)
            rt = self.em.resolve(t)
            parts = [self.val(ev, et) for et, ev in v[1]]
            if rt[0] == 'struct':
                return '((%s){%s})' % (self.em.ct(t), ', '.join(parts))
            raise NotImplementedError("array constant as value")
        raise NotImplementedError(v)

    def fpconst(self, txt, t):
        if txt.startswith('0x') and t[1] == 'double':
            import struct
            return repr(struct.unpack('>d', bytes.fromhex(txt[2:].rjust(16, '0')))[0])
        if txt.startswith('0x') and t[1] == 'float':
            import struct
            return repr(struct.unpack('>d', bytes.fromhex(txt[2:].rjust(16, '0')))[0]) + 'f'
        if txt.startswith('0x'):
            return '0.0L /* %s */' % txt
        return txt

    def undef(self, t):
        k = t[0]
        if k in ('int', 'fp'):
            return '0'
        if k == 'ptr':
            return '((%s)0)' % self.em.ct(t)
        self.em.complete(t)
        return '((%s){0})' % self.em.ct(t)

    def zero(self, t):
        return self.undef(t)

    def em_global_ref(self, name):
        m = self.m
        self.em.ref_global(name)
        if name in m.aliases:
            at, (tt, tv) = m.aliases[name]
            return self.val(tv, tt)
        c = self.em.cident(name)
        if name in m.funcs:
            return c  # function designator decays to pointer
        return '(&%s)' % c

    def cexpr(self, v, t):
        op = v[1]
        if op == 'gep':
            return self.gep_expr(v[2], v[3])
        if op == 'cast':
            _, _, cop, (ft, fv), tt = v
            return self.cast_expr(cop, ft, self.val(fv, ft), tt)
        if op == 'bin':
            _, _, bop, (at, av), (bt, bv) = v
            return self.bin_expr(bop, at, self.val(av, at), self.val(bv, bt), set())
        if op == 'icmp':
            _, _, pred, (at, av), (bt, bv) = v
            return self.icmp_expr(pred, at, self.val(av, at), self.val(bv, bt))
        if op == 'select':
            _, _, (ct_, cv), (at, av), (bt, bv) = v
            return '(%s ? %s : %s)' % (self.val(cv, ct_), self.val(av, at), self.val(bv, bt))
        raise NotImplementedError(op)

    def gep_expr(self, bty, ops):
        (pt, pv) = ops[0]
        base = self.val(pv, pt)
        self.em.complete(bty)
        first = ops[1]
        fi = self.idxval(first)
        if fi == '0':
            e = '(*%s)' % base
        else:
            e = '(%s)[%s]' % (base, fi)
        t = bty
        for (it, iv) in ops[2:]:
            rt = self.em.resolve(t)
            if rt[0] == 'struct':
                e = '%s.f%d' % (e, iv[1])
                t = rt[1][iv[1]]
            elif rt[0] == 'arr':
                e = '%s[%s]' % (e, self.idxval((it, iv)))
                t = rt[2]
            else:
                raise NotImplementedError("gep into %r" % (rt,))
            self.em.complete(t)
        # simplify &(*p) -> p
        if len(ops) == 2 and fi == '0':
            return base
        return '(&%s)' % e

    def idxval(self, tv):
        t, v = tv
        if v[0] == 'int':
            return str(v[1])
        e = self.val(v, t)
        w = round_width(t[1])
        return '(int64_t)(%s)%s' % (SINT[w], e)

    def cast_expr(self, cop, ft, e, tt):
        ctn = self.em.ct(tt)
        if cop in ('bitcast', 'addrspacecast'):
            if ft[0] == 'ptr' and tt[0] == 'ptr':
                return '((%s)%s)' % (ctn, e)
            if ft == tt:
                return e
            raise NotImplementedError("bitcast %r -> %r" % (ft, tt))
        if cop == 'ptrtoint':
            return '((%s)(uintptr_t)%s)' % (ctn, e)
        if cop == 'inttoptr':
            return '((%s)(uintptr_t)%s)' % (ctn, e)
        if cop == 'trunc':
            if tt[1] == 1:
                return '((u8)((%s) & 1))' % e
            return self.mask(tt, '((%s)%s)' % (ctn, e))
        if cop == 'zext':
            return '((%s)%s)' % (ctn, e)
        if cop == 'sext':
            if ft[1] == 1:
                return '((%s)(-(%s)(%s)))' % (ctn, SINT[round_width(tt[1])], e)
            fw = ft[1]
            if fw not in SINT:
                raise NotImplementedError("sext from i%d" % fw)
            return '((%s)(%s)(%s)%s)' % (ctn, SINT[round_width(tt[1])], SINT[fw], e)
        if cop in ('uitofp',):
            return '((%s)%s)' % (ctn, e)
        if cop in ('sitofp',):
            return '((%s)(%s)%s)' % (ctn, SINT[round_width(ft[1])], e)
        if cop in ('fptoui',):
            return '((%s)%s)' % (ctn, e)
        if cop in ('fptosi',):
            return '((%s)(%s)%s)' % (ctn, SINT[round_width(tt[1])], e)
        if cop in ('fpext', 'fptrunc'):
            return '((%s)%s)' % (ctn, e)
        raise NotImplementedError(cop)

    def mask(self, t, e):
        w = t[1]
        if w in (8, 16, 32, 64, 128) or t[0] != 'int':
            return e
        if w == 1:
            return '((u8)((%s) & 1))' % e
        return '((%s)((%s) & ((((%s)1) << %d) - 1)))' % (self.em.ct(t), e, self.em.ct(t), w)

    def bin_expr(self, bop, t, a, b, flags):
        if t[0] == 'fp':
            o = {'fadd': '+', 'fsub': '-', 'fmul': '*', 'fdiv': '/'}[bop]
            return '(%s %s %s)' % (a, o, b)
        if t[0] == 'vec':
            raise NotImplementedError("vector op")
        w = t[1]
        cu = self.em.ct(t)
        rw = round_width(w)
        cs = SINT[rw]
        if w == 1:
            o = {'and': '&', 'or': '|', 'xor': '^', 'add': '^', 'sub': '^', 'mul': '&'}.get(bop)
            if o is None:
                raise NotImplementedError("i1 " + bop)
            return '((u8)((%s %s %s) & 1))' % (a, o, b)
        if bop in ('add', 'sub', 'mul'):
            o = {'add': '+', 'sub': '-', 'mul': '*'}[bop]
            if 'nsw' in flags and self.em.opts.get('nsw_checks') and w in (32, 64):
                return '((%s)((%s)%s %s (%s)%s))' % (cu, cs, a, o, cs, b)
            if w < 32:
                return self.mask(t, '((%s)((u32)%s %s (u32)%s))' % (cu, a, o, b))
            return self.mask(t, '((%s)(%s %s %s))' % (cu, a, o, b))
        if bop in ('and', 'or', 'xor'):
            o = {'and': '&', 'or': '|', 'xor': '^'}[bop]
            return '((%s)(%s %s %s))' % (cu, a, o, b)
        if bop in ('udiv', 'urem'):
            o = '/' if bop == 'udiv' else '%'
            return '((%s)(%s %s %s))' % (cu, a, o, b)
        if bop in ('sdiv', 'srem'):
            o = '/' if bop == 'sdiv' else '%'
            if w != rw:
                raise NotImplementedError("sdiv on i%d" % w)
            return '((%s)((%s)%s %s (%s)%s))' % (cu, cs, a, o, cs, b)
        if bop == 'shl':
            if w < 32:
                return self.mask(t, '((%s)((u32)%s << %s))' % (cu, a, b))
            return self.mask(t, '((%s)(%s << %s))' % (cu, a, b))
        if bop == 'lshr':
            return '((%s)(%s >> %s))' % (cu, a, b)
        if bop == 'ashr':
            if w != rw:
                raise NotImplementedError("ashr on i%d" % w)
            return '((%s)((%s)%s >> %s))' % (cu, cs, a, b)
        raise NotImplementedError(bop)

    def icmp_expr(self, pred, t, a, b):
        if t[0] == 'ptr':
            if pred == 'eq':
                return '((u8)(%s == %s))' % (a, b)
            if pred == 'ne':
                return '((u8)(%s != %s))' % (a, b)
            a = '((u64)(uintptr_t)%s)' % a
            b = '((u64)(uintptr_t)%s)' % b
            t = ('int', 64)
        w = t[1]
        rw = round_width(w)
        o = {'eq': '==', 'ne': '!=', 'ugt': '>', 'uge': '>=', 'ult': '<', 'ule': '<=', 'sgt': '>', 'sge': '>=',
             'slt': '<', 'sle': '<='}[pred]
        if pred[0] == 's':
            if w == 1:
                # signed i1: 1 is -1
                return '((u8)(-(int)%s %s -(int)%s))' % (a, o, b)
            if w != rw:
                raise NotImplementedError("signed cmp on i%d" % w)
            cs = SINT[rw]
            return '((u8)((%s)%s %s (%s)%s))' % (cs, a, o, cs, b)
        return '((u8)(%s %s %s))' % (a, o, b)

    # ---- body
    def newtmp(self, cty):
        self.tmp += 1
        n = 't%d' % self.tmp
        self.decls.append('%s %s;' % (cty, n))
        return n

    def declare(self, name, t):
        if name in self.vt:
            return
        self.vt[name] = t
        self.em.complete(t)
        self.decls.append('%s %s;' % (self.em.ct(t), self.lname(name)))

    def emit(self, s):
        self.out.append('  ' + s)

    def translate(self):
        f = self.f
        em = self.em
        if not f.blocks:
            parse_body(f)
        for t, n, a in f.params:
            self.vt[n] = t
        # compute reachable blocks by normal edges
        bmap = {l: ins for l, ins in f.blocks}
        succ = {}
        for l, ins in f.blocks:
            s = []
            if ins:
                last = ins[-1]
                if last.op == 'br':
                    s = [last.a['dest']]
                elif last.op == 'condbr':
                    s = [last.a['t'], last.a['f']]
                elif last.op == 'switch':
                    s = [last.a['default']] + [c[1] for c in last.a['cases']]
                elif last.op == 'invoke':
                    s = [last.a['ok']]
                    if em.opts.get('eh'):
                        s.append(last.a['unwind'])
            succ[l] = s
        entry = f.blocks[0][0]
        reach = set()
        wl = [entry]
        while wl:
            b = wl.pop()
            if b in reach:
                continue
            reach.add(b)
            wl.extend(succ[b])
        self.reach = reach
        # result types first (needed for phis referencing later values)
        for l, ins in f.blocks:
            if l not in reach:
                continue
            for i in ins:
                if i.res is not None:
                    self.vt[i.res] = self.result_type(i)
        for l, ins in f.blocks:
            if l not in reach:
                continue
            phis = [i for i in ins if i.op == 'phi']
            for i in phis:
                pass
        self.phis = {l: [i for i in ins if i.op == 'phi'] for l, ins in f.blocks if l in reach}
        for l, ins in f.blocks:
            if l not in reach:
                continue
            self.out.append('%s: ;' % self.label(l))
            for i in ins:
                try:
                    self.instr(l, i)
                except NotImplementedError as e:
                    raise NotImplementedError("%s in %s block %s" % (e, f.name, l))
        # assemble
        hdr = em.fn_signature(f, True)
        body = []
        body.append(hdr + ' {')
        declared = set()
        for n, t in self.vt.items():
            if any(n == pn for _, pn, _ in f.params):
                continue
            if t == ('void',) or t is None:
                continue
            em.complete(t)
            body.append('  %s %s;' % (em.ct(t), self.lname(n)))
        for d in self.decls:
            body.append('  ' + d)
        # byval params: copy
        for t, n, a in f.params:
            if 'byval' in a:
                bt = a['byval']
                em.complete(bt)
                body.append('  %s byval_%s = *%s; %s = &byval_%s;' % (em.ct(bt), self.lname(n), self.lname(n), self.lname(n), self.lname(n)))
        body.extend(self.out)
        body.append('}')
        return '\n'.join(body)

    def result_type(self, i):
        op = i.op
        if op in ('bin', 'fneg', 'load', 'phi', 'select', 'call', 'invoke', 'landingpad', 'insertvalue', 'atomicrmw',
                  'cmpxchg', 'freeze', 'icmp', 'fcmp', 'cast', 'alloca', 'va_arg'):
            return i.ty
        if op == 'gep':
            bty = i.a['bty']
            t = self.idx_type(bty, i.a['ops'][1:])
            return ('ptr', t)
        if op == 'extractvalue':
            t = i.a['aty']
            for ix in i.a['idx']:
                rt = self.em.resolve(t)
                t = rt[1][ix] if rt[0] == 'struct' else rt[2]
            return t
        raise NotImplementedError(op)

    def phi_assign(self, frm, to):
        ph = self.phis.get(to, [])
        if not ph:
            return ''
        pairs = []
        for i in ph:
            for v, lbl in i.a['inc']:
                if lbl == frm:
                    pairs.append((i, v))
                    break
            else:
                raise SyntaxError("phi in %s block %s lacks incoming from %s" % (self.f.name, to, frm))
        phinames = {i.res for i in ph}
        need_tmp = len(pairs) > 1 and any(v[0] == 'local' and v[1] in phinames for _, v in pairs)
        s = []
        if need_tmp:
            tmps = []
            for i, v in pairs:
                tn = self.newtmp(self.em.ct(i.ty))
                s.append('%s = %s;' % (tn, self.val(v, i.ty)))
                tmps.append(tn)
            for (i, v), tn in zip(pairs, tmps):
                s.append('%s = %s;' % (self.lname(i.res), tn))
        else:
            for i, v in pairs:
                if v[0] == 'undef':
                    continue
                s.append('%s = %s;' % (self.lname(i.res), self.val(v, i.ty)))
        return ' '.join(s)

    def goto(self, frm, to):
        return '{ %s goto %s; }' % (self.phi_assign(frm, to), self.label(to))

    def instr(self, blk, i):
        op = i.op
        a = i.a
        em = self.em
        r = self.lname(i.res) if i.res is not None else None
        if op == 'phi' or op == 'nop':
            return
        if op == 'bin':
            self.emit('%s = %s;' % (r, self.bin_expr(a['bop'], i.ty, self.val(a['x'], i.ty), self.val(a['y'], i.ty), a['flags'])))
        elif op == 'fneg':
            self.emit('%s = -%s;' % (r, self.val(a['x'], i.ty)))
        elif op == 'icmp':
            self.emit('%s = %s;' % (r, self.icmp_expr(a['pred'], a['oty'], self.val(a['x'], a['oty']), self.val(a['y'], a['oty']))))
        elif op == 'fcmp':
            pred = a['pred']
            x, y = self.val(a['x'], a['oty']), self.val(a['y'], a['oty'])
            o = {'oeq': '==', 'one': '!=', 'ogt': '>', 'oge': '>=', 'olt': '<', 'ole': '<=', 'ueq': '==', 'une': '!=',
                 'ugt': '>', 'uge': '>=', 'ult': '<', 'ule': '<='}.get(pred)
            if o is None:
                raise NotImplementedError('fcmp ' + pred)
            self.emit('%s = (u8)(%s %s %s);' % (r, x, o, y))
        elif op == 'cast':
            self.emit('%s = %s;' % (r, self.cast_expr(a['cop'], a['fty'], self.val(a['x'], a['fty']), i.ty)))
        elif op == 'alloca':
            aty = a['aty']
            em.complete(aty)
            if a['cnt'] is None or (a['cnt'][1][0] == 'int' and a['cnt'][1][1] == 1):
                self.decls.append('%s %s_mem;' % (em.ct(aty), r))
                self.emit('%s = &%s_mem;' % (r, r))
            elif a['cnt'][1][0] == 'int':
                self.decls.append('%s %s_mem[%d];' % (em.ct(aty), r, a['cnt'][1][1]))
                self.emit('%s = &%s_mem[0];' % (r, r))
            else:
                self.emit('%s = (%s*)malloc(sizeof(%s) * %s);' % (r, em.ct(aty), em.ct(aty), self.val(a['cnt'][1], a['cnt'][0])))
        elif op == 'load':
            em.complete(i.ty)
            e = '*%s' % self.val(a['ptr'], a['pty'])
            if i.ty == ('int', 1):
                e = '(u8)((%s) & 1)' % e
            self.emit('%s = %s;' % (r, e))
        elif op == 'store':
            em.complete(a['vty'])
            self.emit('*%s = %s;' % (self.val(a['ptr'], a['pty']), self.val(a['val'], a['vty'])))
        elif op == 'gep':
            self.emit('%s = %s;' % (r, self.gep_expr(a['bty'], a['ops'])))
        elif op == 'select':
            self.emit('%s = %s ? %s : %s;' % (r, self.val(a['c'], ('int', 1)), self.val(a['x'], i.ty), self.val(a['y'], i.ty)))
        elif op == 'freeze':
            self.emit('%s = %s;' % (r, self.val(a['x'], i.ty)))
        elif op in ('call', 'invoke'):
            self.call(i, r)
            if op == 'invoke':
                self.emit(self.goto(blk, a['ok']))
        elif op == 'br':
            self.emit(self.goto(blk, a['dest']))
        elif op == 'condbr':
            self.emit('if (%s) %s else %s' % (self.val(a['c'], ('int', 1)), self.goto(blk, a['t']), self.goto(blk, a['f'])))
        elif op == 'switch':
            self.emit('switch (%s) {' % self.val(a['v'], a['vty']))
            for cv, lbl in a['cases']:
                self.emit('  case %s: %s' % (self.val(cv, a['vty']), self.goto(blk, lbl)))
            self.emit('  default: %s' % self.goto(blk, a['default']))
            self.emit('}')
        elif op == 'ret':
            if a['v'] is None:
                self.emit('return;')
            else:
                self.emit('return %s;' % self.val(a['v'], a['vty']))
        elif op == 'unreachable':
            self.emit('__verif_unreachable();')
            if self.f.ret == ('void',):
                self.emit('return;')
            else:
                self.emit('return %s;' % self.undef(self.f.ret))
        elif op == 'resume':
            self.emit('__verif_throw();')
        elif op == 'landingpad':
            self.emit('/* landingpad */')
        elif op == 'extractvalue':
            e = self.val(a['agg'], a['aty'])
            t = a['aty']
            for ix in a['idx']:
                rt = em.resolve(t)
                if rt[0] == 'struct':
                    e = '%s.f%d' % (e, ix)
                    t = rt[1][ix]
                else:
                    e = '%s[%d]' % (e, ix)
                    t = rt[2]
            self.emit('%s = %s;' % (r, e))
        elif op == 'insertvalue':
            em.complete(i.ty)
            if a['agg'][0] != 'undef':
                self.emit('%s = %s;' % (r, self.val(a['agg'], i.ty)))
            e = r
            t = i.ty
            for ix in a['idx']:
                rt = em.resolve(t)
                if rt[0] == 'struct':
                    e = '%s.f%d' % (e, ix)
                    t = rt[1][ix]
                else:
                    e = '%s[%d]' % (e, ix)
                    t = rt[2]
            self.emit('%s = %s;' % (e, self.val(a['ev'], a['ety'])))
        elif op == 'atomicrmw':
            p = self.val(a['ptr'], a['pty'])
            v = self.val(a['v'], i.ty)
            rop = a['rop']
            self.emit('%s = *%s;' % (r, p))
            if rop == 'xchg':
                self.emit('*%s = %s;' % (p, v))
            else:
                bop = {'add': 'add', 'sub': 'sub', 'and': 'and', 'or': 'or', 'xor': 'xor'}.get(rop)
                if bop is None:
                    raise NotImplementedError('atomicrmw ' + rop)
                self.emit('*%s = %s;' % (p, self.bin_expr(bop, i.ty, r, v, set())))
        elif op == 'cmpxchg':
            em.complete(i.ty)
            p = self.val(a['ptr'], a['pty'])
            self.emit('%s.f0 = *%s; %s.f1 = (u8)(%s.f0 == %s); if (%s.f1) *%s = %s;' % (
                r, p, r, r, self.val(a['cmp'], a['vty']), r, p, self.val(a['new'], a['vty'])))
        else:
            raise NotImplementedError(op)

    def call(self, i, r):
        a = i.a
        em = self.em
        callee = a['callee']
        args = a['args']
        rt = i.ty
        asg = '%s = ' % r if (r is not None and rt != ('void',)) else ''
        if callee[0] == 'global':
            name = callee[1]
            if name.startswith('llvm.'):
                return self.intrinsic(name, i, r, asg)
            if name in self.m.aliases:
                pass
            f = self.m.funcs.get(name)
            if name == '__cxa_atexit' and (f is None or not f.defined):
                # registration of a static object's destructor: exit handlers never run in a harness, and taking the
                # destructor's address would make it a candidate of every type-compatible indirect call in CBMC
                if asg:
                    self.emit('%s0;' % asg)
                self.emit('/* __cxa_atexit registration dropped */')
                return
            if name in ABORTING and (f is None or not f.defined):
                argv = [self.val(v, t) for t, v, _ in args]
                self.emit((ABORTING[name] % tuple(argv) if '%s' in ABORTING[name] else ABORTING[name]) + ';')
                return
            if name in LIBC and (f is None or not f.defined):
                argv = [('(void*)' + self.val(v, t)) if t[0] == 'ptr' else self.val(v, t) for t, v, _ in args]
                cast = '(%s)' % em.ct(rt) if rt != ('void',) else ''
                if r is None or rt == ('void',):
                    self.emit('%s(%s);' % (name, ', '.join(argv)))
                else:
                    self.emit('%s = %s%s(%s);' % (r, cast, name, ', '.join(argv)))
                return
            if name in ('_Znwm', '_Znam') and (f is None or not f.defined):
                # CBMC's array theory blows up on heap objects of symbolic size: allocations whose size is not an
                # IR constant go through __verif_new_var (size rounded up to a power of two, bounded).
                t0, v0, _ = args[0]
                # element type = pointee of the first bitcast of the result (CBMC types heap objects from the
                # sizeof in the malloc argument; untyped byte arrays make every struct access a byte_update)
                et = None
                for _l, _ins in self.f.blocks:
                    for j in _ins:
                        if j.op == 'cast' and j.a['cop'] == 'bitcast' and j.a['x'] == ('local', i.res) and j.ty[0] == 'ptr':
                            et = j.ty[1]
                            break
                    if et:
                        break
                esz = None
                if et is not None and et[0] != 'func':
                    try:
                        esz = em.size_align(et)[0]
                        em.complete(et)
                    except NotImplementedError:
                        esz = None
                if v0[0] == 'int':
                    if esz and v0[1] % esz == 0 and v0[1] > 0:
                        self.emit('%s(u8*)malloc(sizeof(%s) * %d); __CPROVER_assume(%s != 0);' % (asg, em.ct(et), v0[1] // esz, r))
                    else:
                        self.emit('%s(u8*)malloc(%d); __CPROVER_assume(%s != 0);' % (asg, v0[1], r))
                elif esz:
                    self.emit('%s(u8*)VERIF_NEW_VAR(%s, %s);' % (asg, em.ct(et), self.val(v0, t0)))
                else:
                    self.emit('%s__verif_new_var(%s);' % (asg, self.val(v0, t0)))
                return
            em.ref_global(name, called=True)
            argv = [self.val(v, t) for t, v, _ in args]
            if f is not None and not f.vararg and a['fnty'] is None:
                # cast args whose types differ (should not happen with typed pointers)
                pass
            if name in self.m.aliases:
                fe = self.val(callee, None)
            else:
                fe = em.cident(name)
            if a['fnty'] is not None and f is not None and a['fnty'] != f.ftype:
                fe = '((%s*)%s)' % (em.ct(a['fnty']), fe)
            self.emit('%s%s(%s);' % (asg, fe, ', '.join(argv)))
            return
        if callee[0] == 'asm' or (callee[0] == 'local' and False):
            raise NotImplementedError('asm')
        # indirect
        fnty = a['fnty'] or ('func', rt, tuple(t for t, _, _ in args), False)
        argv = [self.val(v, t) for t, v, _ in args]
        if callee[0] == 'local':
            fe = self.lname(callee[1])
            lt = self.vt.get(callee[1])
            if lt != ('ptr', fnty):
                fe = '((%s*)%s)' % (em.ct(fnty), fe)
        else:
            fe = '((%s*)%s)' % (em.ct(fnty), self.val(callee, ('ptr', fnty)))
        self.emit('%s(*%s)(%s);' % (asg, fe, ', '.join(argv)))

    def intrinsic(self, name, i, r, asg):
        a = i.a
        args = a['args']
        em = self.em
        av = lambda k: self.val(args[k][1], args[k][0])
        if name.startswith(INTRINSIC_SKIP):
            return
        if name.startswith('llvm.memcpy.'):
            self.emit('memcpy(%s, %s, %s);' % (av(0), av(1), av(2)))
        elif name.startswith('llvm.memmove.'):
            self.emit('memmove(%s, %s, %s);' % (av(0), av(1), av(2)))
        elif name.startswith('llvm.memset.'):
            self.emit('memset(%s, %s, %s);' % (av(0), av(1), av(2)))
        elif name.startswith('llvm.expect.'):
            self.emit('%s%s;' % (asg, av(0)))
        elif name.startswith('llvm.stacksave'):
            self.emit('%s(u8*)0;' % asg)
        elif name.startswith('llvm.trap') or name.startswith('llvm.debugtrap'):
            self.emit('__verif_abort();')
        elif name.startswith('llvm.objectsize'):
            self.emit('%s(%s)-1;' % (asg, em.ct(i.ty)))
        elif name.startswith('llvm.is.constant'):
            self.emit('%s0;' % asg)
        elif name.startswith('llvm.eh.typeid.for'):
            self.emit('%s0;' % asg)
        elif re.match(r'llvm\.(u|s)(mul|add|sub)\.with\.overflow', name):
            m = re.match(r'llvm\.(u|s)(mul|add|sub)\.with\.overflow\.i(\d+)', name)
            sg, o, w = m.group(1), m.group(2), int(m.group(3))
            em.complete(i.ty)
            ty = STD_INT[w] if sg == 'u' else SINT[w]
            tn = self.newtmp(ty)
            self.emit('%s.f1 = (u8)__builtin_%s_overflow((%s)%s, (%s)%s, &%s); %s.f0 = (%s)%s;' % (
                r, o, ty, av(0), ty, av(1), tn, r, STD_INT[w], tn))
        elif re.match(r'llvm\.(umax|umin|smax|smin)\.', name):
            k = name.split('.')[1]
            t = i.ty
            x, y = av(0), av(1)
            if k[0] == 's':
                cs = SINT[round_width(t[1])]
                cmpx, cmpy = '(%s)%s' % (cs, x), '(%s)%s' % (cs, y)
            else:
                cmpx, cmpy = x, y
            o = '>' if k.endswith('max') else '<'
            self.emit('%s(%s %s %s) ? %s : %s;' % (asg, cmpx, o, cmpy, x, y))
        elif name.startswith('llvm.abs.'):
            cs = SINT[round_width(i.ty[1])]
            self.emit('%s(%s)(((%s)%s < 0) ? -(%s)%s : (%s)%s);' % (asg, em.ct(i.ty), cs, av(0), cs, av(0), cs, av(0)))
        elif name.startswith('llvm.bswap.i32'):
            self.emit('%s__builtin_bswap32(%s);' % (asg, av(0)))
        elif name.startswith('llvm.bswap.i64'):
            self.emit('%s__builtin_bswap64(%s);' % (asg, av(0)))
        elif name.startswith('llvm.bswap.i16'):
            self.emit('%s__builtin_bswap16(%s);' % (asg, av(0)))
        elif name.startswith('llvm.ctpop.i64'):
            self.emit('%s(u64)__builtin_popcountll(%s);' % (asg, av(0)))
        elif name.startswith('llvm.ctpop.i32'):
            self.emit('%s(u32)__builtin_popcount(%s);' % (asg, av(0)))
        elif name.startswith('llvm.ctlz.i64'):
            self.emit('%s(%s == 0) ? 64 : (u64)__builtin_clzll(%s);' % (asg, av(0), av(0)))
        elif name.startswith('llvm.ctlz.i32'):
            self.emit('%s(%s == 0) ? 32 : (u32)__builtin_clz(%s);' % (asg, av(0), av(0)))
        elif name.startswith('llvm.cttz.i64'):
            self.emit('%s(%s == 0) ? 64 : (u64)__builtin_ctzll(%s);' % (asg, av(0), av(0)))
        elif name.startswith('llvm.cttz.i32'):
            self.emit('%s(%s == 0) ? 32 : (u32)__builtin_ctz(%s);' % (asg, av(0), av(0)))
        elif re.match(r'llvm\.fsh[lr]\.i(\d+)', name):
            m = re.match(r'llvm\.fsh([lr])\.i(\d+)', name)
            w = int(m.group(2))
            cu = STD_INT[w]
            x, y, z = av(0), av(1), av(2)
            if m.group(1) == 'l':
                self.emit('%s((%s %% %d) == 0) ? %s : (%s)((%s << (%s %% %d)) | (%s >> (%d - (%s %% %d))));' % (asg, z, w, x, cu, x, z, w, y, w, z, w))
            else:
                self.emit('%s((%s %% %d) == 0) ? %s : (%s)((%s << (%d - (%s %% %d))) | (%s >> (%s %% %d)));' % (asg, z, w, y, cu, x, w, z, w, y, z, w))
        elif name.startswith('llvm.va_start') or name.startswith('llvm.va_end') or name.startswith('llvm.va_copy'):
            raise NotImplementedError(name)
        else:
            raise NotImplementedError("intrinsic " + name)


STABLE_STRUCTS = {'class.std::__cxx11::basic_string'}


def emitter_methods():
    def fn_signature(self, f, named, weak=False):
        rt = self.ct(f.ret)
        self.complete(f.ret)
        if weak and f.ret[0] == 'ptr' and f.ret[1][0] == 'named' and f.ret[1][1] not in STABLE_STRUCTS:
            rt = 'void*'   # stubs/models return void* (struct names can be merge-dependent)
        ps = []
        for t, n, a in f.params:
            self.complete(t) if t[0] in ('struct', 'named') else self.ct(t)
            if weak and t[0] == 'ptr' and t[1][0] == 'func':
                ps.append('void*')   # function pointer typedef names (PF<n>) are not stable either
                continue
            if weak and t[0] == 'ptr' and t[1][0] == 'named' and t[1][1] not in STABLE_STRUCTS:
                # clang/llvm-link merge structurally identical struct types, so the pointee *name* of a
                # bodyless function's parameter is not stable: models and stubs take void*.
                ps.append('void*')
                continue
            if named:
                ps.append('%s %s' % (self.ct(t), ('v' + san(n))))
            else:
                ps.append(self.ct(t))
        if f.vararg:
            ps.append('...')
        if not ps:
            ps = ['void']
        return '%s %s(%s)' % (rt, self.cident(f.name), ', '.join(ps))

    Emitter.fn_signature = fn_signature

    def ref_global(self, name, called=False):
        if name in self.m.aliases:
            # resolve alias target
            at, (tt, tv) = self.m.aliases[name]
            self.scan_value(tv)
            return
        if name in self.seen:
            return
        self.seen.add(name)
        self.work.append(name)

    Emitter.ref_global = ref_global

    def scan_value(self, v):
        k = v[0]
        if k == 'global':
            self.ref_global(v[1])
        elif k == 'agg':
            for et, ev in v[1]:
                self.scan_value(ev)
        elif k == 'cexpr':
            op = v[1]
            if op == 'gep':
                for t, x in v[3]:
                    self.scan_value(x)
            elif op == 'cast':
                self.scan_value(v[3][1])
            elif op in ('bin', 'icmp'):
                self.scan_value(v[3][1]); self.scan_value(v[4][1])
            elif op == 'select':
                self.scan_value(v[2][1]); self.scan_value(v[3][1]); self.scan_value(v[4][1])

    Emitter.scan_value = scan_value


emitter_methods()


def const_init(em, fe, v, t):
    """C static initializer text for constant v of type t"""
    k = v[0]
    rt = em.resolve(t)
    if k == 'zero' or k == 'undef':
        if rt[0] in ('struct', 'arr'):
            return '{0}'
        return '0'
    if k == 'cstr':
        return '{' + ','.join(str(b) for b in v[1]) + '}'
    if k == 'agg':
        if rt[0] == 'struct':
            if not v[1]:
                return '{}'
            return '{' + ', '.join(const_init(em, fe, ev, et) for et, ev in v[1]) + '}'
        return '{' + ', '.join(const_init(em, fe, ev, et) for et, ev in v[1]) + '}'
    return fe.val(v, t)


def translate(ll_text, roots, cut=(), opts=None, keep_addr_taken=()):
    opts = opts or {}
    m = Module()
    m.parse(ll_text)
    # model-boundary decision: libstdc++'s SSO union {i64 cap; [8 x i8]} is only touched by the string model;
    # a flat [16 x i8] has the same size/alignment inside the string and is far cheaper for CBMC.
    bs = m.types.get('class.std::__cxx11::basic_string')
    if bs and bs[0] == 'struct' and len(bs[1]) == 3 and not opts.get('no_sso_retype'):
        m.types['class.std::__cxx11::basic_string'] = ('struct', (bs[1][0], bs[1][1], ('arr', 16, ('int', 8))), False)
    em = Emitter(m, opts)
    em.seen = set()
    em.work = []
    cut_re = [re.compile(c) for c in cut]
    noop_re = [re.compile(c) for c in opts.get('cut_noop', [])]
    noops = []
    extra_defs = []
    keep_re = [re.compile(c) for c in keep_addr_taken]

    def is_cut(n):
        return any(r.fullmatch(n) or r.search(n) for r in cut_re)

    for r_ in roots:
        if r_ not in m.funcs and r_ not in m.globals:
            raise SystemExit("root %s not in module" % r_)
        em.ref_global(r_)
    fn_bodies = []
    protos = []
    gl_defs = []
    gl_decls = []
    encoded = []
    bodyless = []
    defmacros = []
    dummy_f = Func()
    dummy_f.name = '__const__'
    dummy_f.ret = ('void',)
    cfe = FnEmitter(em, dummy_f)
    from_global_init = set()
    while em.work:
        name = em.work.pop()
        if name in m.funcs:
            f = m.funcs[name]
            if name.startswith('llvm.'):
                continue
            want_body = f.defined and not is_cut(name)
            if f.defined and any(r.search(name) for r in noop_re):
                # "cut_noop": the function is replaced by a body that does nothing (stated in the harness spec)
                rt_ = em.ct(f.ret)
                em.complete(f.ret)
                sig_ = em.fn_signature(f, True)
                if f.ret[0] == 'void':
                    fn_bodies.append('%s { }' % sig_)
                elif f.ret[0] in ('struct', 'named', 'arr'):
                    fn_bodies.append('%s { %s r_; memset(&r_, 0, sizeof r_); return r_; }' % (sig_, rt_))
                else:
                    fn_bodies.append('%s { return 0; }' % sig_)
                encoded.append(name)
                noops.append(name)
                defmacros.append('#define DEF_%s 1' % em.cident(name))
                protos.append((name, f))
                continue
            if want_body and name in from_global_init and not any(r.search(name) for r in keep_re) and name not in roots:
                want_body = False
            if want_body:
                fe = FnEmitter(em, f)
                txt = fe.translate()
                fn_bodies.append(txt)
                encoded.append(name)
                defmacros.append('#define DEF_%s 1' % em.cident(name))
            else:
                bodyless.append(name)
                defmacros.append('#define DECL_%s 1' % em.cident(name))
                if f.ret[0] == 'struct':
                    # literal struct result: the generated lit<N> name is not stable, models use RET_<function>
                    defmacros.append('#define RET_%s %s' % (em.cident(name), em.ct(f.ret)))
            protos.append((name, f))
        elif name in m.globals:
            g = m.globals[name]
            em.complete(g.ty)
            cn = em.cident(name)
            ctn = em.ct(g.ty)
            if (g.external or g.init is None) and name.startswith(('_ZTI', '_ZTS', '_ZTV')):
                # RTTI objects / vtables defined in other translation units or libstdc++: only their addresses are
                # used by the translated code; give them a (zero) definition so that the unit links on its own
                gl_decls.append('extern %s %s;' % (ctn, cn))
                extra_defs.append('%s %s;' % (ctn, cn))
            elif g.external or g.init is None:
                gl_decls.append('extern %s %s;' % (ctn, cn))
                defmacros.append('#define DECLG_%s 1' % cn)
            else:
                before = set(em.seen)
                em.scan_value(g.init)
                newly = em.seen - before
                for nn in newly:
                    if nn in m.funcs:
                        from_global_init.add(nn)
                gl_decls.append('extern %s %s;' % (ctn, cn))
                gl_defs.append((name, g))
        else:
            raise SystemExit("unknown global referenced: %s" % name)
    # complete every named struct that was only forward declared (models/harnesses need the bodies)
    changed = True
    while changed:
        changed = False
        for tn, st in list(em.struct_state.items()):
            if st == 'fwd':
                em.complete(('named', tn))
                changed = True
    # global definitions (after all types known)
    gtxt = []
    for name, g in gl_defs:
        gtxt.append('%s %s = %s;' % (em.ct(g.ty), em.cident(name), const_init(em, cfe, g.init, g.ty)))
    # there may be new globals referenced by const_init (function refs) -> they were scanned already.
    proto_txt = []
    enc = set(encoded)
    for name, f in protos:
        proto_txt.append(em.fn_signature(f, False, weak=(name not in enc)) + ';')
    have = ['#define HAVE_%s 1' % tg for tg in sorted(em.used_tags)]
    h = [PRELUDE, '\n'.join(em.fwd), '\n'.join(em.tdecl), '\n'.join(have), '\n'.join(defmacros), '\n'.join(gl_decls),
         '\n'.join(proto_txt)]
    c = ['#include "unit.h"', '\n'.join(extra_defs), '\n'.join(gtxt), '\n\n'.join(fn_bodies)]
    def tdesc(t):
        d = {'c': em.ct(t), 'kind': t[0]}
        if t[0] == 'ptr':
            pt = t[1]
            d['pointee_kind'] = pt[0]
            if pt[0] == 'named':
                d['pointee'] = pt[1]
            try:
                d['pointee_size'] = em.size_align(pt)[0]
            except Exception:
                d['pointee_size'] = None
            d['pointee_c'] = em.ct(pt) if pt[0] != 'func' else None
        elif t[0] == 'int':
            d['bits'] = t[1]
        return d
    pinfo = {}
    for name, f in protos:
        if name in enc:
            continue
        rd = tdesc(f.ret)
        rd.update({k_: v_ for k_, v_ in getattr(f, 'ret_attrs', {}).items()})
        ps = []
        for t, n, a in f.params:
            d = tdesc(t)
            for k_ in ('sret', 'byval'):
                if k_ in a:
                    d[k_] = True
            for k_ in ('nonnull', 'dereferenceable', 'readonly', 'noalias'):
                if k_ in a:
                    d[k_] = a[k_]
            ps.append(d)
        pinfo[name] = {'c_name': em.cident(name), 'ret': rd, 'params': ps, 'vararg': f.vararg,
                       'signature': em.fn_signature(f, False, weak=True)}
    info = {'encoded': sorted(encoded), 'bodyless': sorted(bodyless), 'protos': pinfo, 'noop': sorted(noops),
            'names': {k: v for k, v in em.gname.items()},
            'structs': em.named_c}
    return '\n'.join(h) + '\n', '\n'.join(c) + '\n', info


def main():
    ap = argparse.ArgumentParser()
    ap.add_argument('ll')
    ap.add_argument('--roots', required=True)
    ap.add_argument('--cut', default='')
    ap.add_argument('--keep', default='')
    ap.add_argument('--nsw-checks', action='store_true')
    ap.add_argument('-o', '--outdir', required=True)
    a = ap.parse_args()
    txt = open(a.ll).read()
    h, c, info = translate(txt, [r for r in a.roots.split(',') if r], [x for x in a.cut.split(',') if x],
                           {'nsw_checks': a.nsw_checks}, [x for x in a.keep.split(',') if x])
    os.makedirs(a.outdir, exist_ok=True)
    open(os.path.join(a.outdir, 'unit.h'), 'w').write(h)
    open(os.path.join(a.outdir, 'unit.c'), 'w').write(c)
    json.dump(info, open(os.path.join(a.outdir, 'unit.json'), 'w'), indent=1)
    print("encoded %d functions, %d bodyless" % (len(info['encoded']), len(info['bodyless'])))


if __name__ == '__main__':
    main()
