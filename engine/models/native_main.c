/* Native driver for a harness entry (replay of a CBMC counterexample, or seeded random
   differential validation of the translated unit against the real g++-built code).
   Built by engine/replay.py with -DVERIF_NATIVE -DVERIF_ENTRY=<harness function>.
     prog replay <file>          values (one unsigned decimal per line) feed nondet_* in call order
     prog random <seed> <count>  <count> pseudo-random value vectors; prints one line per vector */
#include <stdio.h>
#include <stdlib.h>
#include <string.h>
#include <setjmp.h>
#define VERIF_MAXVALS 4096
unsigned long long verif_replay_vals[VERIF_MAXVALS];
unsigned verif_replay_n, verif_replay_i;
int verif_failed;
unsigned long long verif_digest;
jmp_buf verif_jb;
int verif_quiet;
char verif_first_fail[256];
extern void VERIF_ENTRY(void);

void verif_reject(const char *what)
{
  if (!verif_quiet) fprintf(stderr, "REPLAY: assumption violated: %s\n", what);
  longjmp(verif_jb, 1);
}
void verif_prop(int cond, const char *tag)
{
  /* digest of (tag up to ':', verdict) sequence */
  for (const char *p = tag; *p && *p != ':'; p++) verif_digest = (verif_digest ^ (unsigned char)*p) * 1099511628211ULL;
  verif_digest = (verif_digest ^ (cond ? 1 : 2)) * 1099511628211ULL;
  if (!cond) {
    if (!verif_failed) { strncpy(verif_first_fail, tag, sizeof verif_first_fail - 1); }
    verif_failed = 1;
    if (!verif_quiet) fprintf(stderr, "REPLAY-ASSERT-FAILED: %s\n", tag);
  }
}
static unsigned long long rs;
static unsigned long long rnd(void) { rs ^= rs << 13; rs ^= rs >> 7; rs ^= rs << 17; return rs; }
static unsigned long long pick(void)
{
  static const unsigned char interesting[] = { ':', ':', ':', ' ', '\t', '\n', '_', 'a', 'b', '0', '1', '9', ',', '/', '.', '=', 0x7f, 0x80, 0xff, 1, 0x1f, '<', '>', '&', '"', '\'', '-', '[', ']', ';', '#', '\\' };
  unsigned long long r = rnd();
  switch (r & 7) {
  case 0: case 1: case 2: return (r >> 8) % 4;                      /* very small: lengths, kinds, booleans, letters */
  case 3: return (r >> 8) % 9;
  case 4: case 5: return interesting[(r >> 8) % sizeof interesting];
  case 6: return (r >> 8) & 0xff;
  default: return (r >> 8) % 40;
  }
}
int main(int argc, char **argv)
{
  if (argc >= 3 && !strcmp(argv[1], "replay")) {
    FILE *f = fopen(argv[2], "r");
    if (!f) { perror(argv[2]); return 3; }
    unsigned long long v;
    while (verif_replay_n < VERIF_MAXVALS && fscanf(f, "%llu", &v) == 1) verif_replay_vals[verif_replay_n++] = v;
    fclose(f);
    if (setjmp(verif_jb)) { printf("RESULT rejected\n"); return 77; }
    VERIF_ENTRY();
    printf("RESULT failed=%d first=%s\n", verif_failed, verif_failed ? verif_first_fail : "-");
    return verif_failed ? 1 : 0;
  }
  if (argc >= 4 && !strcmp(argv[1], "random")) {
    rs = strtoull(argv[2], 0, 10) * 2654435761ULL + 88172645463325252ULL;
    long count = atol(argv[3]);
    verif_quiet = 1;
    for (long k = 0; k < count; k++) {
      verif_replay_n = 64 + rnd() % 64;
      for (unsigned i = 0; i < verif_replay_n; i++) verif_replay_vals[i] = pick();
      verif_replay_i = 0; verif_failed = 0; verif_digest = 1469598103934665603ULL; verif_first_fail[0] = 0;
      if (setjmp(verif_jb)) { printf("\n@@ %ld rejected\n", k); continue; }
      VERIF_ENTRY();
      printf("\n@@ %ld %016llx %d %s\n", k, verif_digest, verif_failed, verif_failed ? verif_first_fail : "-");
    }
    return 0;
  }
  fprintf(stderr, "usage: %s replay <file> | random <seed> <count>\n", argv[0]);
  return 3;
}
#ifdef VERIF_NATIVE_REAL
/* referenced by unused static model helpers only; the real build never reaches them */
void __verif_throw(void) { abort(); }
void __verif_abort(void) { abort(); }
void __verif_unreachable(void) { abort(); }
#endif
