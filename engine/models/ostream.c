/* std::ostream model (out-of-line libstdc++ inserters the translated units leave bodyless).
   Default: formatting is not the subject - every inserter returns its stream and writes nothing.
   With -DOS_CAPTURE=<N>: bytes inserted into ANY stream are appended to one capture buffer os_buf[0..os_len)
   (capacity N; exceeding it is a BOUND: failure).  Numbers are written as the single byte '#' (their digits are
   never the subject of a harness that captures).  With -DOS_FAULTS a write may set the stream's fail state:
   os_failed becomes 1 (arbitrarily) at any insertion/flush and stays set; harness-visible ghost os_write_failed. */
#include "unit.h"
#include "verif.h"
#ifdef HAVE_class_std__basic_ostream
typedef struct class_std__basic_ostream os_t;
#ifdef OS_CAPTURE
u8 os_buf[OS_CAPTURE + 1];
u64 os_len;
#endif
/* The stream under observation: a harness sets os_target (and os_target_ios, the address of its std::basic_ios
   virtual base, see os_ios_of) - then only insertions into that stream are captured / counted / may fail.  With
   os_target == 0 every stream counts. */
void *os_target, *os_target_ios;
_Bool os_failed;          /* the observed stream is in a failed state (sticky) */
u32 os_fail_state;        /* which iostate bits: badbit (1) for a failed insertion/flush, failbit (4) for a failed close */
u32 os_pending;           /* bytes inserted into the observed stream since its last successful flush */
u32 os_written;           /* bytes inserted into the observed stream in total */
_Bool os_cin_good = 1;    /* state of std::cin (harness may make it arbitrary) */
void *os_cin_ios;
static void *os_cur;
/* address of the basic_ios virtual base of a stream object: this + vtable[-3] (Itanium ABI vbase offset) */
void *os_ios_of(void *os) { u8 *vt = *(u8 **)os; return (u8 *)os + *(int64_t *)(vt - 24); }
static int os_observed(void) { return os_target == 0 || os_cur == os_target; }
static void os_fault_bits(u32 bits)
{
#ifdef OS_FAULTS
  if (os_observed() && nondet_bool()) { os_failed = 1; os_fail_state |= bits; }
#endif
}
static void os_fault(void) { os_fault_bits(1); }
static void os_put(u8 c)
{
  if (!os_observed()) return;
  os_pending++; os_written++;
  os_fault();
#ifdef OS_CAPTURE
  __CPROVER_assert(os_len < OS_CAPTURE, "BOUND: ostream capture buffer full");
  __CPROVER_assume(os_len < OS_CAPTURE);
  os_buf[os_len++] = c;
#endif
}
static void os_write(const u8 *p, u64 n)
{
#ifdef OS_CAPTURE
  for (u64 i = 0; i < n; i++) os_put(p[i]);
#else
  if (os_observed() && n) { os_pending++; os_written++; os_fault(); }
#endif
}
static u64 os_strlen(const u8 *s) { u64 n = 0; while (s[n]) n++; return n; }

/* also linked into the native build against the real g++ objects: the executable's definitions preempt
   libstdc++'s, so the same stream model (observed stream, fault injection) runs there */
#ifdef DECL__ZSt16__ostream_insertIcSt11char_traitsIcEERSt13basic_ostreamIT_T0_ES6_PKS3_l
void *_ZSt16__ostream_insertIcSt11char_traitsIcEERSt13basic_ostreamIT_T0_ES6_PKS3_l(void *os, u8 *s, u64 n) { os_cur = os; os_write(s, n); return os; }
#endif
#ifdef DECL__ZStlsISt11char_traitsIcEERSt13basic_ostreamIcT_ES5_PKc
void *_ZStlsISt11char_traitsIcEERSt13basic_ostreamIcT_ES5_PKc(void *os, u8 *s) {
  os_cur = os;
#ifdef OS_CAPTURE
  if (s) os_write(s, os_strlen(s)); else os_failed = 1;
#else
  os_write(s, 1);
#endif
  return os; }
#endif
#ifdef DECL__ZStlsIcSt11char_traitsIcESaIcEERSt13basic_ostreamIT_T0_ES7_RKNSt7__cxx1112basic_stringIS4_S5_T1_EE
void *_ZStlsIcSt11char_traitsIcESaIcEERSt13basic_ostreamIT_T0_ES7_RKNSt7__cxx1112basic_stringIS4_S5_T1_EE(void *os, struct class_std____cxx11__basic_string *s)
{ os_cur = os; os_write(s->f0.f0, s->f1); return os; }
#endif
#ifdef DECL__ZStlsISt11char_traitsIcEERSt13basic_ostreamIcT_ES5_c
void *_ZStlsISt11char_traitsIcEERSt13basic_ostreamIcT_ES5_c(void *os, u8 c) { os_cur = os; os_put(c); return os; }
#endif
#ifdef DECL__ZNSo3putEc
void *_ZNSo3putEc(void *os, u8 c) { os_cur = os; os_put(c); return os; }
#endif
#ifdef DECL__ZNSo5writeEPKcl
void *_ZNSo5writeEPKcl(void *os, u8 *s, u64 n) { os_cur = os; os_write(s, n); return os; }
#endif
#ifdef OS_NUM_HEX8
/* harnesses whose only numeric output is `std::hex << std::setfill('0') << std::setw(8) << v`: at least 8 hex digits */
static void os_hex8(u64 v)
{
  int started = 0;
  for (int sh = 60; sh >= 0; sh -= 4) {
    u8 d = (u8)((v >> sh) & 15);
    if (d || started || sh < 32) { started = 1; os_put(d < 10 ? '0' + d : 'a' + d - 10); }
  }
}
#define OS_NUM(name, T) void *name(void *os, T v) { os_cur = os; os_hex8((u64)v); return os; }
#else
/* numbers are written as '#'; with OS_CAPTURE their values are recorded in insertion order (os_num[0..os_nnum)) */
#ifdef OS_CAPTURE
u64 os_num[8]; u32 os_nnum;
#define OS_NUM(name, T) void *name(void *os, T v) { os_cur = os; os_put('#'); if (os_nnum < 8) os_num[os_nnum] = (u64)v; os_nnum++; return os; }
#else
#define OS_NUM(name, T) void *name(void *os, T v) { os_cur = os; os_put('#'); return os; }
#endif
#endif
#ifdef DECL__ZNSolsEm
OS_NUM(_ZNSolsEm, u64)
#endif
#ifdef DECL__ZNSolsEl
OS_NUM(_ZNSolsEl, u64)
#endif
#ifdef DECL__ZNSolsEj
OS_NUM(_ZNSolsEj, u32)
#endif
#ifdef DECL__ZNSolsEb
OS_NUM(_ZNSolsEb, u8)
#endif
#ifdef DECL__ZNSolsEx
OS_NUM(_ZNSolsEx, u64)
#endif
#ifdef DECL__ZNSolsEy
OS_NUM(_ZNSolsEy, u64)
#endif
#ifdef DECL__ZNSolsEd
void *_ZNSolsEd(void *os, double v) { os_cur = os; os_put('#'); return os; }
#endif
#ifdef DECL__ZNSo9_M_insertImEERSoT_
OS_NUM(_ZNSo9_M_insertImEERSoT_, u64)
#endif
#ifdef DECL__ZNSo9_M_insertIlEERSoT_
OS_NUM(_ZNSo9_M_insertIlEERSoT_, u64)
#endif
#ifdef DECL__ZNSo9_M_insertIbEERSoT_
OS_NUM(_ZNSo9_M_insertIbEERSoT_, u8)
#endif
#ifdef DECL__ZNSo9_M_insertIyEERSoT_
OS_NUM(_ZNSo9_M_insertIyEERSoT_, u64)
#endif
#ifdef DECL__ZNSo9_M_insertIxEERSoT_
OS_NUM(_ZNSo9_M_insertIxEERSoT_, u64)
#endif
#ifdef DECL__ZNSo9_M_insertIdEERSoT_
void *_ZNSo9_M_insertIdEERSoT_(void *os, double v) { os_cur = os; os_put('#'); return os; }
#endif
#ifdef DECL__ZNSo9_M_insertIPKvEERSoT_
void *_ZNSo9_M_insertIPKvEERSoT_(void *os, void *v) { os_cur = os; os_put('#'); return os; }
#endif
#ifdef DECL__ZNSolsEs
OS_NUM(_ZNSolsEs, u16)
#endif
#ifdef DECL__ZNSolsEt
OS_NUM(_ZNSolsEt, u16)
#endif
#ifdef DECL__ZNSo5flushEv
void *_ZNSo5flushEv(void *os) { os_cur = os; if (os_observed()) { os_fault(); if (!os_failed) os_pending = 0; } return os; }
#endif
#ifdef DECL__ZSt4endlIcSt11char_traitsIcEERSt13basic_ostreamIT_T0_ES6_
void *_ZSt4endlIcSt11char_traitsIcEERSt13basic_ostreamIT_T0_ES6_(void *os) { os_cur = os; os_put('\n'); if (os_observed()) { os_fault(); if (!os_failed) os_pending = 0; } return os; }
#endif
#ifdef DECL__ZSt5flushIcSt11char_traitsIcEERSt13basic_ostreamIT_T0_ES6_
void *_ZSt5flushIcSt11char_traitsIcEERSt13basic_ostreamIT_T0_ES6_(void *os) { os_cur = os; if (os_observed()) { os_fault(); if (!os_failed) os_pending = 0; } return os; }
#endif
#ifdef DECL__ZNSolsEPFRSoS_E
void *_ZNSolsEPFRSoS_E(void *os, void *f) { return ((void *(*)(void *))f)(os); }
#endif
#ifdef DECL__ZNSolsEPFRSt8ios_baseS0_E
void *_ZNSolsEPFRSt8ios_baseS0_E(void *os, void *f) { return os; }   /* std::hex/dec/...: numbers are '#' anyway */
#endif
#ifdef DECL__ZNSolsEi
void *_ZNSolsEi(void *os, u32 v) { os_cur = os; os_put('#'); return os; }
#endif
/* ---- stream state queries (std::basic_ios<char> members; extern template => out of line) ---- */
static u32 os_state_of(void *ios)
{
  if (ios == os_cin_ios && os_cin_ios) return os_cin_good ? 0 : 4;
  if (os_target_ios ? ios == os_target_ios : 1) return os_failed ? (os_fail_state ? os_fail_state : 1) : 0;
  return 0;
}
#ifdef DECL__ZNKSt9basic_iosIcSt11char_traitsIcEE4goodEv
u8 _ZNKSt9basic_iosIcSt11char_traitsIcEE4goodEv(void *ios) { return os_state_of(ios) == 0; }
#endif
#ifdef DECL__ZNKSt9basic_iosIcSt11char_traitsIcEE4failEv
u8 _ZNKSt9basic_iosIcSt11char_traitsIcEE4failEv(void *ios) { return (os_state_of(ios) & 5) != 0; }
#endif
#ifdef DECL__ZNKSt9basic_iosIcSt11char_traitsIcEE3badEv
u8 _ZNKSt9basic_iosIcSt11char_traitsIcEE3badEv(void *ios) { return (os_state_of(ios) & 1) != 0; }
#endif
#ifdef DECL__ZNKSt9basic_iosIcSt11char_traitsIcEEntEv
u8 _ZNKSt9basic_iosIcSt11char_traitsIcEEntEv(void *ios) { return (os_state_of(ios) & 5) != 0; }
#endif
#ifdef DECL__ZNKSt9basic_iosIcSt11char_traitsIcEEcvbEv
u8 _ZNKSt9basic_iosIcSt11char_traitsIcEEcvbEv(void *ios) { return (os_state_of(ios) & 5) == 0; }
#endif
#ifdef DECL__ZNKSt9basic_iosIcSt11char_traitsIcEE7rdstateEv
u32 _ZNKSt9basic_iosIcSt11char_traitsIcEE7rdstateEv(void *ios) { return os_state_of(ios); }
#endif
/* ---- std::ofstream: open may fail (os_open_ok, harness controlled); close flushes and may fail ---- */
_Bool os_open_ok = 1;
static _Bool os_file_open;
#ifdef HAVE_class_std__basic_ofstream
static int64_t os_vt_file[6] = { (int64_t)__builtin_offsetof(struct class_std__basic_ofstream, f2), 0, 0, 0, 0, 0 };
#ifdef DECL__ZNSt14basic_ofstreamIcSt11char_traitsIcEEC1EPKcSt13_Ios_Openmode
void _ZNSt14basic_ofstreamIcSt11char_traitsIcEEC1EPKcSt13_Ios_Openmode(void *f, u8 *path, u32 mode)
{ *(void **)f = (void *)&os_vt_file[3]; os_file_open = os_open_ok; }
#endif
#ifdef DECL__ZNSt14basic_ofstreamIcSt11char_traitsIcEE7is_openEv
u8 _ZNSt14basic_ofstreamIcSt11char_traitsIcEE7is_openEv(void *f) { return os_file_open; }
#endif
#ifdef DECL__ZNKSt14basic_ofstreamIcSt11char_traitsIcEE7is_openEv
u8 _ZNKSt14basic_ofstreamIcSt11char_traitsIcEE7is_openEv(void *f) { return os_file_open; }
#endif
#ifdef DECL__ZNSt14basic_ofstreamIcSt11char_traitsIcEE5closeEv
void _ZNSt14basic_ofstreamIcSt11char_traitsIcEE5closeEv(void *f)
{ os_cur = f; if (os_observed()) { os_fault_bits(4); /* basic_ofstream::close: setstate(failbit) on failure */ if (!os_failed) os_pending = 0; } os_file_open = 0; }
#endif
#ifdef DECL__ZNSt14basic_ofstreamIcSt11char_traitsIcEED1Ev
void _ZNSt14basic_ofstreamIcSt11char_traitsIcEED1Ev(void *f) { os_file_open = 0; }
#endif
#endif
/* ---- std::ostringstream (capture mode): the text inserted since construction is what str() returns ---- */
#if defined(OS_CAPTURE) && defined(HAVE_class_std____cxx11__basic_string)
#ifdef DECL__ZNSt7__cxx1119basic_ostringstreamIcSt11char_traitsIcESaIcEEC1Ev
static int64_t os_vt_sstream[6] = { 8, 0, 0, 0, 0, 0 };
void _ZNSt7__cxx1119basic_ostringstreamIcSt11char_traitsIcESaIcEEC1Ev(void *o) { *(void **)o = (void *)&os_vt_sstream[3]; os_len = 0; }
#endif
#ifdef DECL__ZNSt7__cxx1119basic_ostringstreamIcSt11char_traitsIcESaIcEED1Ev
void _ZNSt7__cxx1119basic_ostringstreamIcSt11char_traitsIcESaIcEED1Ev(void *o) { }
#endif
#ifdef DECL__ZNKSt7__cxx1119basic_ostringstreamIcSt11char_traitsIcESaIcEE3strEv
void _ZNKSt7__cxx1119basic_ostringstreamIcSt11char_traitsIcESaIcEE3strEv(struct class_std____cxx11__basic_string *sret, void *o) { vs_make_n(sret, os_buf, os_len); }
#endif
#elif defined(HAVE_class_std____cxx11__basic_string)
/* without capture: an ostringstream is an unobserved stream whose str() is an arbitrary short string */
#ifdef DECL__ZNSt7__cxx1119basic_ostringstreamIcSt11char_traitsIcESaIcEEC1Ev
void _ZNSt7__cxx1119basic_ostringstreamIcSt11char_traitsIcESaIcEEC1Ev(void *o) { }
#endif
#ifdef DECL__ZNSt7__cxx1119basic_ostringstreamIcSt11char_traitsIcESaIcEED1Ev
void _ZNSt7__cxx1119basic_ostringstreamIcSt11char_traitsIcESaIcEED1Ev(void *o) { }
#endif
#ifdef DECL__ZNKSt7__cxx1119basic_ostringstreamIcSt11char_traitsIcESaIcEE3strEv
void _ZNKSt7__cxx1119basic_ostringstreamIcSt11char_traitsIcESaIcEE3strEv(struct class_std____cxx11__basic_string *sret, void *o) { vs_nondet(sret, 2); }
#endif
#endif
/* ---- the standard stream objects: an Itanium-ABI vptr whose vbase-offset slot (index -3) locates basic_ios ---- */
#ifndef VERIF_NATIVE
static int64_t os_vt_out[6] = { 8, 0, 0, 0, 0, 0 };     /* ostream: {vptr}, basic_ios at +8 */
static int64_t os_vt_in[6] = { 16, 0, 0, 0, 0, 0 };     /* istream: {vptr, gcount}, basic_ios at +16 */
#ifdef DECLG__ZSt4cout
struct class_std__basic_ostream _ZSt4cout = { .f0 = (void *)&os_vt_out[3] };
#endif
#ifdef DECLG__ZSt4cerr
struct class_std__basic_ostream _ZSt4cerr = { .f0 = (void *)&os_vt_out[3] };
#endif
#ifdef DECLG__ZSt3cin
struct class_std__basic_istream _ZSt3cin = { .f0 = (void *)&os_vt_in[3] };
#endif
#endif
#if defined(VERIF_NATIVE) && !defined(VERIF_NATIVE_REAL)
/* native build of the translated unit */
static int64_t os_vt_out[6] = { 8, 0, 0, 0, 0, 0 };
static int64_t os_vt_in[6] = { 16, 0, 0, 0, 0, 0 };
#ifdef DECLG__ZSt4cout
struct class_std__basic_ostream _ZSt4cout = { .f0 = (void *)&os_vt_out[3] };
#endif
#ifdef DECLG__ZSt4cerr
struct class_std__basic_ostream _ZSt4cerr = { .f0 = (void *)&os_vt_out[3] };
#endif
#ifdef DECLG__ZSt3cin
struct class_std__basic_istream _ZSt3cin = { .f0 = (void *)&os_vt_in[3] };
#endif
#endif
#endif
#ifdef HAVE_class_std__basic_ostream
/* harness-side helper: a callee stub "writes" n bytes to stream os through the model */
void os_harness_write(void *os, u32 n)
{
  os_cur = os;
  for (u32 i = 0; i < n && i < 4; i++) os_put('x');
}
#endif
