/* std::ostream model (out-of-line libstdc++ inserters the translated units leave bodyless).
   Default: formatting is not the subject - every inserter returns its stream and writes nothing.
   With -DOS_CAPTURE=<N>: bytes inserted into ANY stream are appended to one capture buffer os_buf[0..os_len)
   (capacity N; exceeding it is a BOUND: failure).  Numbers are written as the single byte '#' (their digits are
   never the subject of a harness that captures).  With -DOS_FAULTS a write may set the stream's fail state:
   os_failed becomes 1 (arbitrarily) at any insertion/flush and stays set; harness-visible ghost os_write_failed. */
#include "unit.h"
#include "verif.h"
#ifdef HAVE_class_std__basic_ostream
typedef struct class_std__basic_ostream os_t;
#ifdef OS_CAPTURE
u8 os_buf[OS_CAPTURE + 1];
u64 os_len;
#endif
_Bool os_failed;          /* sticky failbit|badbit of "the" output stream (one stream per harness) */
u32 os_pending;           /* bytes inserted since the last flush */
static void os_fault(void)
{
#ifdef OS_FAULTS
  if (nondet_bool()) os_failed = 1;
#endif
}
static void os_put(u8 c)
{
  os_pending++;
  os_fault();
#ifdef OS_CAPTURE
  __CPROVER_assert(os_len < OS_CAPTURE, "BOUND: ostream capture buffer full");
  __CPROVER_assume(os_len < OS_CAPTURE);
  os_buf[os_len++] = c;
#endif
}
static void os_write(const u8 *p, u64 n)
{
#ifdef OS_CAPTURE
  for (u64 i = 0; i < n; i++) os_put(p[i]);
#else
  os_pending += n ? 1 : 0; os_fault();
#endif
}
static u64 os_strlen(const u8 *s) { u64 n = 0; while (s[n]) n++; return n; }

#ifndef VERIF_NATIVE_REAL
#ifdef DECL__ZSt16__ostream_insertIcSt11char_traitsIcEERSt13basic_ostreamIT_T0_ES6_PKS3_l
os_t *_ZSt16__ostream_insertIcSt11char_traitsIcEERSt13basic_ostreamIT_T0_ES6_PKS3_l(void *os, u8 *s, u64 n) { os_write(s, n); return os; }
#endif
#ifdef DECL__ZStlsISt11char_traitsIcEERSt13basic_ostreamIcT_ES5_PKc
os_t *_ZStlsISt11char_traitsIcEERSt13basic_ostreamIcT_ES5_PKc(void *os, u8 *s) {
#ifdef OS_CAPTURE
  if (s) os_write(s, os_strlen(s)); else os_failed = 1;
#else
  os_write(s, 1);
#endif
  return os; }
#endif
#ifdef DECL__ZStlsIcSt11char_traitsIcESaIcEERSt13basic_ostreamIT_T0_ES7_RKNSt7__cxx1112basic_stringIS4_S5_T1_EE
os_t *_ZStlsIcSt11char_traitsIcESaIcEERSt13basic_ostreamIT_T0_ES7_RKNSt7__cxx1112basic_stringIS4_S5_T1_EE(void *os, struct class_std____cxx11__basic_string *s)
{ os_write(s->f0.f0, s->f1); return os; }
#endif
#ifdef DECL__ZStlsISt11char_traitsIcEERSt13basic_ostreamIcT_ES5_c
os_t *_ZStlsISt11char_traitsIcEERSt13basic_ostreamIcT_ES5_c(void *os, u8 c) { os_put(c); return os; }
#endif
#ifdef DECL__ZNSo3putEc
os_t *_ZNSo3putEc(void *os, u8 c) { os_put(c); return os; }
#endif
#ifdef DECL__ZNSo5writeEPKcl
os_t *_ZNSo5writeEPKcl(void *os, u8 *s, u64 n) { os_write(s, n); return os; }
#endif
#define OS_NUM(name, T) os_t *name(void *os, T v) { os_put('#'); return os; }
#ifdef DECL__ZNSolsEm
OS_NUM(_ZNSolsEm, u64)
#endif
#ifdef DECL__ZNSolsEl
OS_NUM(_ZNSolsEl, u64)
#endif
#ifdef DECL__ZNSolsEj
OS_NUM(_ZNSolsEj, u32)
#endif
#ifdef DECL__ZNSolsEb
OS_NUM(_ZNSolsEb, u8)
#endif
#ifdef DECL__ZNSolsEx
OS_NUM(_ZNSolsEx, u64)
#endif
#ifdef DECL__ZNSolsEy
OS_NUM(_ZNSolsEy, u64)
#endif
#ifdef DECL__ZNSolsEd
os_t *_ZNSolsEd(void *os, double v) { os_put('#'); return os; }
#endif
#ifdef DECL__ZNSo9_M_insertImEERSoT_
OS_NUM(_ZNSo9_M_insertImEERSoT_, u64)
#endif
#ifdef DECL__ZNSo9_M_insertIlEERSoT_
OS_NUM(_ZNSo9_M_insertIlEERSoT_, u64)
#endif
#ifdef DECL__ZNSo9_M_insertIbEERSoT_
OS_NUM(_ZNSo9_M_insertIbEERSoT_, u8)
#endif
#ifdef DECL__ZNSo9_M_insertIyEERSoT_
OS_NUM(_ZNSo9_M_insertIyEERSoT_, u64)
#endif
#ifdef DECL__ZNSo9_M_insertIxEERSoT_
OS_NUM(_ZNSo9_M_insertIxEERSoT_, u64)
#endif
#ifdef DECL__ZNSo9_M_insertIdEERSoT_
os_t *_ZNSo9_M_insertIdEERSoT_(void *os, double v) { os_put('#'); return os; }
#endif
#ifdef DECL__ZNSo9_M_insertIPKvEERSoT_
os_t *_ZNSo9_M_insertIPKvEERSoT_(void *os, void *v) { os_put('#'); return os; }
#endif
#ifdef DECL__ZNSolsEs
OS_NUM(_ZNSolsEs, u16)
#endif
#ifdef DECL__ZNSolsEt
OS_NUM(_ZNSolsEt, u16)
#endif
#ifdef DECL__ZNSo5flushEv
os_t *_ZNSo5flushEv(void *os) { os_fault(); if (!os_failed) os_pending = 0; return os; }
#endif
#ifdef DECL__ZSt4endlIcSt11char_traitsIcEERSt13basic_ostreamIT_T0_ES6_
os_t *_ZSt4endlIcSt11char_traitsIcEERSt13basic_ostreamIT_T0_ES6_(void *os) { os_put('\n'); os_fault(); if (!os_failed) os_pending = 0; return os; }
#endif
#ifdef DECL__ZSt5flushIcSt11char_traitsIcEERSt13basic_ostreamIT_T0_ES6_
os_t *_ZSt5flushIcSt11char_traitsIcEERSt13basic_ostreamIT_T0_ES6_(void *os) { os_fault(); if (!os_failed) os_pending = 0; return os; }
#endif
#ifdef DECL__ZNSolsEPFRSoS_E
os_t *_ZNSolsEPFRSoS_E(void *os, os_t *(*f)(void *)) { return f(os); }
#endif
#ifdef DECL__ZNSolsEPFRSt8ios_baseS0_E
os_t *_ZNSolsEPFRSt8ios_baseS0_E(void *os, void *f) { return os; }   /* std::hex/dec/...: numbers are '#' anyway */
#endif
#ifdef DECL__ZNSolsEi
os_t *_ZNSolsEi(void *os, u32 v) { os_put('#'); return os; }
#endif
#endif /* !VERIF_NATIVE_REAL */
#endif
