/* libstdc++ out-of-line red-black tree helpers (std::map / std::set): the container code (_Rb_tree, find, lower_bound,
   insert, erase) is the REAL template code; only these leaf routines are models.
   _Rb_tree_increment / _Rb_tree_decrement: textbook in-order successor / predecessor over {parent,left,right} links.
   _Rb_tree_rebalance_for_erase: unlinks the node like a plain binary search tree (no re-colouring / rotation) and
   keeps header.parent/left/right (root, leftmost, rightmost) up to date.  Balance is a performance property, the
   ordered-container semantics (what find/iteration return) do not depend on it.
   _Rb_tree_insert_and_rebalance: links the node as a BST leaf, updates the header. */
#include "unit.h"
#include "verif.h"
typedef struct rbn { u32 color; struct rbn *parent, *left, *right; } rbn;
#ifndef RB_DEPTH
#define RB_DEPTH 6
#endif
static rbn *rb_min(rbn *x) { for (int i = 0; i < RB_DEPTH && x->left; i++) x = x->left; __CPROVER_assert(!x->left, "BOUND: tree deeper than RB_DEPTH"); return x; }
static rbn *rb_max(rbn *x) { for (int i = 0; i < RB_DEPTH && x->right; i++) x = x->right; __CPROVER_assert(!x->right, "BOUND: tree deeper than RB_DEPTH"); return x; }
static rbn *rb_next(rbn *x)
{
  if (x->right) return rb_min(x->right);
  rbn *y = x->parent;
  for (int i = 0; i < RB_DEPTH && x == y->right; i++) { x = y; y = y->parent; }
  /* the header is its own grand-parent: when x was the rightmost node, y is now the header */
  if (x->right != y) x = y;
  return x;
}
#if defined(DECL__ZSt18_Rb_tree_incrementPSt18_Rb_tree_node_base)
void *_ZSt18_Rb_tree_incrementPSt18_Rb_tree_node_base(void *x) { return rb_next(x); }
#endif
#if defined(DECL__ZSt18_Rb_tree_incrementPKSt18_Rb_tree_node_base)
void *_ZSt18_Rb_tree_incrementPKSt18_Rb_tree_node_base(void *x) { return rb_next(x); }
#endif
#if defined(DECL__ZSt28_Rb_tree_rebalance_for_erasePSt18_Rb_tree_node_baseRS_)
void *_ZSt28_Rb_tree_rebalance_for_erasePSt18_Rb_tree_node_baseRS_(void *z_, void *h_)
{
  rbn *z = z_, *h = h_;
  rbn *repl;            /* the subtree that takes z's place */
  if (!z->left) repl = z->right;
  else if (!z->right) repl = z->left;
  else {
    /* two children: splice the successor (leftmost of the right subtree) into z's place */
    rbn *s = rb_min(z->right);
    if (s != z->right) { s->parent->left = s->right; if (s->right) s->right->parent = s->parent; s->right = z->right; z->right->parent = s; }
    s->left = z->left; z->left->parent = s;
    repl = s;
  }
  if (repl) repl->parent = z->parent;
  if (h->parent == z) h->parent = repl;
  else if (z->parent->left == z) z->parent->left = repl;
  else z->parent->right = repl;
  h->left = h->parent ? rb_min(h->parent) : h;
  h->right = h->parent ? rb_max(h->parent) : h;
  return z;
}
#endif
#if defined(DECL__ZSt29_Rb_tree_insert_and_rebalancebPSt18_Rb_tree_node_baseS0_RS_)
void _ZSt29_Rb_tree_insert_and_rebalancebPSt18_Rb_tree_node_baseS0_RS_(u8 insert_left, void *x_, void *p_, void *h_)
{
  rbn *x = x_, *p = p_, *h = h_;
  x->parent = p; x->left = 0; x->right = 0; x->color = 0;
  if (insert_left) {
    p->left = x;                    /* also makes leftmost = x when p is the header */
    if (p == h) { h->parent = x; h->right = x; }
    else if (p == h->left) h->left = x;
  } else {
    p->right = x;
    if (p == h->right) h->right = x;
  }
}
#endif
