/* libstdc++ out-of-line pieces of std::unordered_{map,set} (the container code itself - _Hashtable, node
   allocation, bucket lists, lookup - is the REAL template code from the IR).
   _Hash_bytes: a deterministic function of the bytes (byte sum * 31 + length).  Any deterministic function is a
   valid hash; this one is cheap for the solver and still separates most short strings, so both the
   "same bucket chain" and the "different hash code" paths of the real lookup code are exercised.
   _Prime_rehash_policy::_M_need_rehash: never rehash.  The table keeps the bucket array it was created with
   (the single in-object bucket for a default-constructed container), every element lives in one chain; the real
   code handles that case (load factor is a performance policy, not a correctness condition). */
#include "unit.h"
#include "verif.h"
#ifdef DECL__ZSt11_Hash_bytesPKvmm
u64 _ZSt11_Hash_bytesPKvmm(u8 *p, u64 n, u64 seed)
{
  u64 h = n;
  for (u64 i = 0; i < n; i++) h = h * 31u + p[i];
  return h;
}
#endif
#ifdef DECL__ZNKSt8__detail20_Prime_rehash_policy14_M_need_rehashEmmm
RET__ZNKSt8__detail20_Prime_rehash_policy14_M_need_rehashEmmm _ZNKSt8__detail20_Prime_rehash_policy14_M_need_rehashEmmm(void *pol, u64 n_bkt, u64 n_elt, u64 n_ins)
{ RET__ZNKSt8__detail20_Prime_rehash_policy14_M_need_rehashEmmm r; r.f0 = 0; r.f1 = 0; return r; }
#endif
