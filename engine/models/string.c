/* Model of the out-of-line members of libstdc++'s std::__cxx11::basic_string<char>
   over the REAL object layout { {char* p}, size_t len, union { size_t cap; char local[16]; } }.
   SSO semantics are kept (p == local buffer for capacity 15).  Heap buffers have the
   constant size VERIF_STR_HEAP; exceeding it is a *bound* failure (reported as
   "BOUND:" assertion, treated like an unwinding assertion), never silently cut. */
#include "unit.h"
#include "verif.h"

#ifdef HAVE_class_std____cxx11__basic_string
typedef struct class_std____cxx11__basic_string vstr;
#ifndef VERIF_STR_HEAP
#define VERIF_STR_HEAP 40
#endif
#define SP(s) ((s)->f0.f0)
#define SLEN(s) ((s)->f1)
#define SLOCAL(s) (&((s)->f2[0]))
#define SCAP(s) (*(u64 *)&((s)->f2[0]))
#define NPOS ((u64)-1)

static inline int vs_is_local(vstr *s) { return SP(s) == SLOCAL(s); }
static inline u64 vs_capacity(vstr *s) { return vs_is_local(s) ? 15 : SCAP(s); }
static inline void vs_init_empty(vstr *s) { SP(s) = SLOCAL(s); SLEN(s) = 0; SLOCAL(s)[0] = 0; }
static u8 *vs_alloc(u64 cap)
{
  __CPROVER_assert(cap + 1 <= VERIF_STR_HEAP, "BOUND: string model heap buffer (VERIF_STR_HEAP) too small");
  __CPROVER_assume(cap + 1 <= VERIF_STR_HEAP);
  u8 *p = malloc(VERIF_STR_HEAP);
  __CPROVER_assume(p != 0);
  return p;
}
static void vs_construct(vstr *s, const u8 *p, u64 n)
{
  if (n > 15) { SP(s) = vs_alloc(n); SCAP(s) = n; }
  else SP(s) = SLOCAL(s);
  for (u64 i = 0; i < n; i++) SP(s)[i] = p[i];
  SLEN(s) = n;
  SP(s)[n] = 0;
}
static void vs_dispose(vstr *s) { if (!vs_is_local(s)) free(SP(s)); }
static void vs_reserve(vstr *s, u64 cap)
{
  u64 oc = vs_capacity(s);
  if (cap <= oc) return;
  if (cap < 2 * oc) cap = 2 * oc;
  if (cap + 1 > VERIF_STR_HEAP) cap = VERIF_STR_HEAP - 1; /* growth policy is not observable; keep within bound */
  u8 *np = vs_alloc(cap);
  u64 n = SLEN(s);
  for (u64 i = 0; i <= n; i++) np[i] = SP(s)[i];
  vs_dispose(s);
  SP(s) = np; SCAP(s) = cap;
}
/* replace [pos,pos+n1) by p[0..n2); p must not alias s (callers copy first when it may) */
static void vs_replace(vstr *s, u64 pos, u64 n1, const u8 *p, u64 n2)
{
  u64 len = SLEN(s);
  if (pos > len) { __verif_throw(); return; }
  if (n1 > len - pos) n1 = len - pos;
  u64 nl = len - n1 + n2;
  u8 tmp[VERIF_STR_HEAP];
  __CPROVER_assert(n2 < VERIF_STR_HEAP, "BOUND: string model heap buffer (VERIF_STR_HEAP) too small");
  __CPROVER_assume(n2 < VERIF_STR_HEAP);
  for (u64 i = 0; i < n2; i++) tmp[i] = p[i];
  vs_reserve(s, nl);
  u8 *d = SP(s);
  u64 tail = len - pos - n1;
  if (n2 > n1) { for (u64 i = tail; i > 0; i--) d[pos + n2 + i - 1] = d[pos + n1 + i - 1]; }
  else if (n2 < n1) { for (u64 i = 0; i < tail; i++) d[pos + n2 + i] = d[pos + n1 + i]; }
  for (u64 i = 0; i < n2; i++) d[pos + i] = tmp[i];
  SLEN(s) = nl;
  d[nl] = 0;
}
static u64 vs_strlen(const u8 *p) { u64 n = 0; while (p[n]) n++; return n; }
static int vs_cmp(const u8 *a, u64 na, const u8 *b, u64 nb)
{
  u64 n = na < nb ? na : nb;
  for (u64 i = 0; i < n; i++) {
    if (a[i] != b[i]) return a[i] < b[i] ? -1 : 1;
  }
  if (na == nb) return 0;
  /* libstdc++ clamps the size difference to int */
  return na < nb ? -1 : 1;
}
static int vs_cmp_len(const u8 *a, u64 na, const u8 *b, u64 nb)
{
  /* exact libstdc++ result: traits compare result (memcmp sign) or clamped length difference */
  u64 n = na < nb ? na : nb;
  for (u64 i = 0; i < n; i++) {
    if (a[i] != b[i]) return (int)a[i] - (int)b[i];
  }
  int64_t d = (int64_t)(na - nb);
  if (d > 2147483647) return 2147483647;
  if (d < -2147483647 - 1) return -2147483647 - 1;
  return (int)d;
}
static u64 vs_find(const u8 *h, u64 hl, const u8 *n, u64 nl, u64 pos)
{
  if (nl == 0) return pos <= hl ? pos : NPOS;
  if (pos >= hl) return NPOS;
  if (nl > hl) return NPOS;
  for (u64 i = pos; i + nl <= hl; i++) {
    u64 j = 0;
    while (j < nl && h[i + j] == n[j]) j++;
    if (j == nl) return i;
  }
  return NPOS;
}
static u64 vs_rfind(const u8 *h, u64 hl, const u8 *n, u64 nl, u64 pos)
{
  if (nl > hl) return NPOS;
  u64 i = hl - nl;
  if (pos < i) i = pos;
  for (;;) {
    u64 j = 0;
    while (j < nl && h[i + j] == n[j]) j++;
    if (j == nl) return i;
    if (i == 0) break;
    i--;
  }
  return NPOS;
}

/* ---- harness helpers (not models) ---- */
void vs_make(vstr *s, const char *lit) { vs_construct(s, (const u8 *)lit, vs_strlen((const u8 *)lit)); }
void vs_make_n(vstr *s, const u8 *p, u64 n) { vs_construct(s, p, n); }
/* symbolic string: length <= maxlen (<=15 keeps it in the SSO buffer), no embedded NUL */
void vs_nondet(vstr *s, u64 maxlen)
{
  u64 n = nondet_u64();
  __CPROVER_assume(n <= maxlen);
  if (maxlen > 15 && n > 15) { SP(s) = vs_alloc(n); SCAP(s) = n; } else SP(s) = SLOCAL(s);
  for (u64 i = 0; i < maxlen; i++) {
    if (i < n) { u8 c = nondet_u8(); __CPROVER_assume(c != 0); SP(s)[i] = c; }
  }
  SLEN(s) = n;
  SP(s)[n] = 0;
}
int vs_eq(vstr *a, vstr *b) { return SLEN(a) == SLEN(b) && vs_cmp(SP(a), SLEN(a), SP(b), SLEN(b)) == 0; }
int vs_eq_lit(vstr *a, const char *lit) { u64 n = vs_strlen((const u8 *)lit); return SLEN(a) == n && vs_cmp(SP(a), n, (const u8 *)lit, n) == 0; }
/* representation invariant of a live string */
int vs_wf(vstr *s) { return SP(s) != 0 && SLEN(s) <= vs_capacity(s) && SP(s)[SLEN(s)] == 0; }

/* ---- models ---- (absent from the native build against the real g++ objects) */
#ifndef VERIF_NATIVE_REAL
#ifdef DECL__ZNSt7__cxx1112basic_stringIcSt11char_traitsIcESaIcEEC2Ev
void _ZNSt7__cxx1112basic_stringIcSt11char_traitsIcESaIcEEC2Ev(vstr *s) { vs_init_empty(s); }
#endif
#ifdef DECL__ZNSt7__cxx1112basic_stringIcSt11char_traitsIcESaIcEEC1Ev
void _ZNSt7__cxx1112basic_stringIcSt11char_traitsIcESaIcEEC1Ev(vstr *s) { vs_init_empty(s); }
#endif
#ifdef DECL__ZNSt7__cxx1112basic_stringIcSt11char_traitsIcESaIcEEC2ERKS3_
void _ZNSt7__cxx1112basic_stringIcSt11char_traitsIcESaIcEEC2ERKS3_(vstr *s, void *a) { vs_init_empty(s); }
#endif
#ifdef DECL__ZNSt7__cxx1112basic_stringIcSt11char_traitsIcESaIcEED2Ev
void _ZNSt7__cxx1112basic_stringIcSt11char_traitsIcESaIcEED2Ev(vstr *s) { vs_dispose(s); }
#endif
#ifdef DECL__ZNSt7__cxx1112basic_stringIcSt11char_traitsIcESaIcEED1Ev
void _ZNSt7__cxx1112basic_stringIcSt11char_traitsIcESaIcEED1Ev(vstr *s) { vs_dispose(s); }
#endif
#ifdef DECL__ZNSt7__cxx1112basic_stringIcSt11char_traitsIcESaIcEEC2EPKcRKS3_
void _ZNSt7__cxx1112basic_stringIcSt11char_traitsIcESaIcEEC2EPKcRKS3_(vstr *s, u8 *p, void *a)
{ if (!p) { __verif_throw(); return; } vs_construct(s, p, vs_strlen(p)); }
#endif
#ifdef DECL__ZNSt7__cxx1112basic_stringIcSt11char_traitsIcESaIcEEC2EPKcmRKS3_
void _ZNSt7__cxx1112basic_stringIcSt11char_traitsIcESaIcEEC2EPKcmRKS3_(vstr *s, u8 *p, u64 n, void *a)
{ vs_construct(s, p, n); }
#endif
#ifdef DECL__ZNSt7__cxx1112basic_stringIcSt11char_traitsIcESaIcEEC2ERKS4_
void _ZNSt7__cxx1112basic_stringIcSt11char_traitsIcESaIcEEC2ERKS4_(vstr *s, vstr *o) { vs_construct(s, SP(o), SLEN(o)); }
#endif
#ifdef DECL__ZNSt7__cxx1112basic_stringIcSt11char_traitsIcESaIcEEC1ERKS4_
void _ZNSt7__cxx1112basic_stringIcSt11char_traitsIcESaIcEEC1ERKS4_(vstr *s, vstr *o) { vs_construct(s, SP(o), SLEN(o)); }
#endif
#ifdef DECL__ZNSt7__cxx1112basic_stringIcSt11char_traitsIcESaIcEEC2EOS4_
void _ZNSt7__cxx1112basic_stringIcSt11char_traitsIcESaIcEEC2EOS4_(vstr *s, vstr *o)
{
  if (vs_is_local(o)) { SP(s) = SLOCAL(s); memcpy(SLOCAL(s), SLOCAL(o), 16); }
  else { SP(s) = SP(o); SCAP(s) = SCAP(o); }
  SLEN(s) = SLEN(o);
  vs_init_empty(o);
}
#endif
#ifdef DECL__ZNSt7__cxx1112basic_stringIcSt11char_traitsIcESaIcEEC2ERKS4_mm
void _ZNSt7__cxx1112basic_stringIcSt11char_traitsIcESaIcEEC2ERKS4_mm(vstr *s, vstr *o, u64 pos, u64 n)
{
  if (pos > SLEN(o)) { __verif_throw(); return; }
  u64 r = SLEN(o) - pos; if (n < r) r = n;
  vs_construct(s, SP(o) + pos, r);
}
#endif
#ifdef DECL__ZNKSt7__cxx1112basic_stringIcSt11char_traitsIcESaIcEE6lengthEv
u64 _ZNKSt7__cxx1112basic_stringIcSt11char_traitsIcESaIcEE6lengthEv(vstr *s) { return SLEN(s); }
#endif
#ifdef DECL__ZNKSt7__cxx1112basic_stringIcSt11char_traitsIcESaIcEE4sizeEv
u64 _ZNKSt7__cxx1112basic_stringIcSt11char_traitsIcESaIcEE4sizeEv(vstr *s) { return SLEN(s); }
#endif
#ifdef DECL__ZNKSt7__cxx1112basic_stringIcSt11char_traitsIcESaIcEE8capacityEv
u64 _ZNKSt7__cxx1112basic_stringIcSt11char_traitsIcESaIcEE8capacityEv(vstr *s) { return vs_capacity(s); }
#endif
#ifdef DECL__ZNKSt7__cxx1112basic_stringIcSt11char_traitsIcESaIcEE5emptyEv
u8 _ZNKSt7__cxx1112basic_stringIcSt11char_traitsIcESaIcEE5emptyEv(vstr *s) { return SLEN(s) == 0; }
#endif
#ifdef DECL__ZNKSt7__cxx1112basic_stringIcSt11char_traitsIcESaIcEE4dataEv
u8 *_ZNKSt7__cxx1112basic_stringIcSt11char_traitsIcESaIcEE4dataEv(vstr *s) { return SP(s); }
#endif
#ifdef DECL__ZNKSt7__cxx1112basic_stringIcSt11char_traitsIcESaIcEE5c_strEv
u8 *_ZNKSt7__cxx1112basic_stringIcSt11char_traitsIcESaIcEE5c_strEv(vstr *s) { return SP(s); }
#endif
#ifdef DECL__ZNKSt7__cxx1112basic_stringIcSt11char_traitsIcESaIcEE5beginEv
u8 *_ZNKSt7__cxx1112basic_stringIcSt11char_traitsIcESaIcEE5beginEv(vstr *s) { return SP(s); }
#endif
#ifdef DECL__ZNKSt7__cxx1112basic_stringIcSt11char_traitsIcESaIcEE3endEv
u8 *_ZNKSt7__cxx1112basic_stringIcSt11char_traitsIcESaIcEE3endEv(vstr *s) { return SP(s) + SLEN(s); }
#endif
#ifdef DECL__ZNSt7__cxx1112basic_stringIcSt11char_traitsIcESaIcEE5beginEv
u8 *_ZNSt7__cxx1112basic_stringIcSt11char_traitsIcESaIcEE5beginEv(vstr *s) { return SP(s); }
#endif
#ifdef DECL__ZNSt7__cxx1112basic_stringIcSt11char_traitsIcESaIcEE3endEv
u8 *_ZNSt7__cxx1112basic_stringIcSt11char_traitsIcESaIcEE3endEv(vstr *s) { return SP(s) + SLEN(s); }
#endif
#ifdef DECL__ZNKSt7__cxx1112basic_stringIcSt11char_traitsIcESaIcEEixEm
u8 *_ZNKSt7__cxx1112basic_stringIcSt11char_traitsIcESaIcEEixEm(vstr *s, u64 i)
{ __CPROVER_assert(i <= SLEN(s), "STRING: operator[] const index within [0,size]"); return SP(s) + i; }
#endif
#ifdef DECL__ZNSt7__cxx1112basic_stringIcSt11char_traitsIcESaIcEEixEm
u8 *_ZNSt7__cxx1112basic_stringIcSt11char_traitsIcESaIcEEixEm(vstr *s, u64 i)
{ __CPROVER_assert(i <= SLEN(s), "STRING: operator[] index within [0,size]"); return SP(s) + i; }
#endif
#ifdef DECL__ZNSt7__cxx1112basic_stringIcSt11char_traitsIcESaIcEE2atEm
u8 *_ZNSt7__cxx1112basic_stringIcSt11char_traitsIcESaIcEE2atEm(vstr *s, u64 i)
{ if (i >= SLEN(s)) { __verif_throw(); } return SP(s) + i; }
#endif
#ifdef DECL__ZNKSt7__cxx1112basic_stringIcSt11char_traitsIcESaIcEE2atEm
u8 *_ZNKSt7__cxx1112basic_stringIcSt11char_traitsIcESaIcEE2atEm(vstr *s, u64 i)
{ if (i >= SLEN(s)) { __verif_throw(); } return SP(s) + i; }
#endif
#ifdef DECL__ZNSt7__cxx1112basic_stringIcSt11char_traitsIcESaIcEE5clearEv
void _ZNSt7__cxx1112basic_stringIcSt11char_traitsIcESaIcEE5clearEv(vstr *s) { SLEN(s) = 0; SP(s)[0] = 0; }
#endif
#ifdef DECL__ZNSt7__cxx1112basic_stringIcSt11char_traitsIcESaIcEE7reserveEm
void _ZNSt7__cxx1112basic_stringIcSt11char_traitsIcESaIcEE7reserveEm(vstr *s, u64 n) { vs_reserve(s, n); }
#endif
#ifdef DECL__ZNSt7__cxx1112basic_stringIcSt11char_traitsIcESaIcEEaSEPKc
vstr *_ZNSt7__cxx1112basic_stringIcSt11char_traitsIcESaIcEEaSEPKc(vstr *s, u8 *p)
{ vs_replace(s, 0, SLEN(s), p, vs_strlen(p)); return s; }
#endif
#ifdef DECL__ZNSt7__cxx1112basic_stringIcSt11char_traitsIcESaIcEEaSEc
vstr *_ZNSt7__cxx1112basic_stringIcSt11char_traitsIcESaIcEEaSEc(vstr *s, u8 c)
{ vs_replace(s, 0, SLEN(s), &c, 1); return s; }
#endif
#ifdef DECL__ZNSt7__cxx1112basic_stringIcSt11char_traitsIcESaIcEEaSERKS4_
vstr *_ZNSt7__cxx1112basic_stringIcSt11char_traitsIcESaIcEEaSERKS4_(vstr *s, vstr *o)
{ if (s != o) vs_replace(s, 0, SLEN(s), SP(o), SLEN(o)); return s; }
#endif
#ifdef DECL__ZNSt7__cxx1112basic_stringIcSt11char_traitsIcESaIcEE6assignERKS4_
vstr *_ZNSt7__cxx1112basic_stringIcSt11char_traitsIcESaIcEE6assignERKS4_(vstr *s, vstr *o)
{ if (s != o) vs_replace(s, 0, SLEN(s), SP(o), SLEN(o)); return s; }
#endif
#ifdef DECL__ZNSt7__cxx1112basic_stringIcSt11char_traitsIcESaIcEE6assignEPKc
vstr *_ZNSt7__cxx1112basic_stringIcSt11char_traitsIcESaIcEE6assignEPKc(vstr *s, u8 *p)
{ vs_replace(s, 0, SLEN(s), p, vs_strlen(p)); return s; }
#endif
#ifdef DECL__ZNSt7__cxx1112basic_stringIcSt11char_traitsIcESaIcEEaSEOS4_
vstr *_ZNSt7__cxx1112basic_stringIcSt11char_traitsIcESaIcEEaSEOS4_(vstr *s, vstr *o)
{
  if (s == o) return s;
  if (vs_is_local(o)) { vs_replace(s, 0, SLEN(s), SP(o), SLEN(o)); }
  else { vs_dispose(s); SP(s) = SP(o); SCAP(s) = SCAP(o); SLEN(s) = SLEN(o); SP(o) = SLOCAL(o); }
  SLEN(o) = 0; SP(o)[0] = 0;
  return s;
}
#endif
#ifdef DECL__ZNSt7__cxx1112basic_stringIcSt11char_traitsIcESaIcEE4swapERS4_
void _ZNSt7__cxx1112basic_stringIcSt11char_traitsIcESaIcEE4swapERS4_(vstr *a, vstr *b)
{
  if (a == b) return;
  vstr ta, tb;
  _Bool la = vs_is_local(a), lb = vs_is_local(b);
  ta = *a; tb = *b;
  *a = tb; *b = ta;
  if (lb) SP(a) = SLOCAL(a);
  if (la) SP(b) = SLOCAL(b);
}
#endif
#ifdef DECL__ZNSt7__cxx1112basic_stringIcSt11char_traitsIcESaIcEE6appendEPKc
vstr *_ZNSt7__cxx1112basic_stringIcSt11char_traitsIcESaIcEE6appendEPKc(vstr *s, u8 *p)
{ vs_replace(s, SLEN(s), 0, p, vs_strlen(p)); return s; }
#endif
#ifdef DECL__ZNSt7__cxx1112basic_stringIcSt11char_traitsIcESaIcEEpLEPKc
vstr *_ZNSt7__cxx1112basic_stringIcSt11char_traitsIcESaIcEEpLEPKc(vstr *s, u8 *p)
{ vs_replace(s, SLEN(s), 0, p, vs_strlen(p)); return s; }
#endif
#ifdef DECL__ZNSt7__cxx1112basic_stringIcSt11char_traitsIcESaIcEE6appendEPKcm
vstr *_ZNSt7__cxx1112basic_stringIcSt11char_traitsIcESaIcEE6appendEPKcm(vstr *s, u8 *p, u64 n)
{ vs_replace(s, SLEN(s), 0, p, n); return s; }
#endif
#ifdef DECL__ZNSt7__cxx1112basic_stringIcSt11char_traitsIcESaIcEE6appendERKS4_
vstr *_ZNSt7__cxx1112basic_stringIcSt11char_traitsIcESaIcEE6appendERKS4_(vstr *s, vstr *o)
{ vs_replace(s, SLEN(s), 0, SP(o), SLEN(o)); return s; }
#endif
#ifdef DECL__ZNSt7__cxx1112basic_stringIcSt11char_traitsIcESaIcEEpLERKS4_
vstr *_ZNSt7__cxx1112basic_stringIcSt11char_traitsIcESaIcEEpLERKS4_(vstr *s, vstr *o)
{ vs_replace(s, SLEN(s), 0, SP(o), SLEN(o)); return s; }
#endif
#ifdef DECL__ZNSt7__cxx1112basic_stringIcSt11char_traitsIcESaIcEEpLEc
vstr *_ZNSt7__cxx1112basic_stringIcSt11char_traitsIcESaIcEEpLEc(vstr *s, u8 c)
{ vs_replace(s, SLEN(s), 0, &c, 1); return s; }
#endif
#ifdef DECL__ZNSt7__cxx1112basic_stringIcSt11char_traitsIcESaIcEE9push_backEc
void _ZNSt7__cxx1112basic_stringIcSt11char_traitsIcESaIcEE9push_backEc(vstr *s, u8 c)
{ vs_replace(s, SLEN(s), 0, &c, 1); }
#endif
#ifdef DECL__ZNSt7__cxx1112basic_stringIcSt11char_traitsIcESaIcEE6insertEmRKS4_
vstr *_ZNSt7__cxx1112basic_stringIcSt11char_traitsIcESaIcEE6insertEmRKS4_(vstr *s, u64 pos, vstr *o)
{ vs_replace(s, pos, 0, SP(o), SLEN(o)); return s; }
#endif
#ifdef DECL__ZNSt7__cxx1112basic_stringIcSt11char_traitsIcESaIcEE6insertEmPKc
vstr *_ZNSt7__cxx1112basic_stringIcSt11char_traitsIcESaIcEE6insertEmPKc(vstr *s, u64 pos, u8 *p)
{ vs_replace(s, pos, 0, p, vs_strlen(p)); return s; }
#endif
#ifdef DECL__ZNSt7__cxx1112basic_stringIcSt11char_traitsIcESaIcEE5eraseEmm
vstr *_ZNSt7__cxx1112basic_stringIcSt11char_traitsIcESaIcEE5eraseEmm(vstr *s, u64 pos, u64 n)
{ vs_replace(s, pos, n, (const u8 *)"", 0); return s; }
#endif
#ifdef DECL__ZNSt7__cxx1112basic_stringIcSt11char_traitsIcESaIcEE7replaceEmmPKc
vstr *_ZNSt7__cxx1112basic_stringIcSt11char_traitsIcESaIcEE7replaceEmmPKc(vstr *s, u64 pos, u64 n, u8 *p)
{ vs_replace(s, pos, n, p, vs_strlen(p)); return s; }
#endif
#ifdef DECL__ZNSt7__cxx1112basic_stringIcSt11char_traitsIcESaIcEE7replaceEmmRKS4_
vstr *_ZNSt7__cxx1112basic_stringIcSt11char_traitsIcESaIcEE7replaceEmmRKS4_(vstr *s, u64 pos, u64 n, vstr *o)
{ vs_replace(s, pos, n, SP(o), SLEN(o)); return s; }
#endif
#ifdef DECL__ZNKSt7__cxx1112basic_stringIcSt11char_traitsIcESaIcEE6substrEmm
void _ZNKSt7__cxx1112basic_stringIcSt11char_traitsIcESaIcEE6substrEmm(vstr *ret, vstr *s, u64 pos, u64 n)
{
  if (pos > SLEN(s)) { __verif_throw(); vs_init_empty(ret); return; }
  u64 r = SLEN(s) - pos; if (n < r) r = n;
  vs_construct(ret, SP(s) + pos, r);
}
#endif
#ifdef DECL__ZNKSt7__cxx1112basic_stringIcSt11char_traitsIcESaIcEE13get_allocatorEv
void _ZNKSt7__cxx1112basic_stringIcSt11char_traitsIcESaIcEE13get_allocatorEv(void *r, vstr *s) { }
#endif
#ifdef DECL__ZNKSt7__cxx1112basic_stringIcSt11char_traitsIcESaIcEE7compareERKS4_
u32 _ZNKSt7__cxx1112basic_stringIcSt11char_traitsIcESaIcEE7compareERKS4_(vstr *s, vstr *o)
{ return (u32)vs_cmp_len(SP(s), SLEN(s), SP(o), SLEN(o)); }
#endif
#ifdef DECL__ZNKSt7__cxx1112basic_stringIcSt11char_traitsIcESaIcEE7compareEPKc
u32 _ZNKSt7__cxx1112basic_stringIcSt11char_traitsIcESaIcEE7compareEPKc(vstr *s, u8 *p)
{ return (u32)vs_cmp_len(SP(s), SLEN(s), p, vs_strlen(p)); }
#endif
#ifdef DECL__ZNKSt7__cxx1112basic_stringIcSt11char_traitsIcESaIcEE7compareEmmRKS4_
u32 _ZNKSt7__cxx1112basic_stringIcSt11char_traitsIcESaIcEE7compareEmmRKS4_(vstr *s, u64 pos, u64 n, vstr *o)
{
  if (pos > SLEN(s)) { __verif_throw(); return 0; }
  u64 r = SLEN(s) - pos; if (n < r) r = n;
  return (u32)vs_cmp_len(SP(s) + pos, r, SP(o), SLEN(o));
}
#endif
#ifdef DECL__ZNKSt7__cxx1112basic_stringIcSt11char_traitsIcESaIcEE7compareEmmRKS4_mm
u32 _ZNKSt7__cxx1112basic_stringIcSt11char_traitsIcESaIcEE7compareEmmRKS4_mm(vstr *s, u64 pos, u64 n, vstr *o, u64 pos2, u64 n2)
{
  if (pos > SLEN(s) || pos2 > SLEN(o)) { __verif_throw(); return 0; }
  u64 r = SLEN(s) - pos; if (n < r) r = n;
  u64 r2 = SLEN(o) - pos2; if (n2 < r2) r2 = n2;
  return (u32)vs_cmp_len(SP(s) + pos, r, SP(o) + pos2, r2);
}
#endif
#ifdef DECL__ZNKSt7__cxx1112basic_stringIcSt11char_traitsIcESaIcEE7compareEmmPKc
u32 _ZNKSt7__cxx1112basic_stringIcSt11char_traitsIcESaIcEE7compareEmmPKc(vstr *s, u64 pos, u64 n, u8 *p)
{
  if (pos > SLEN(s)) { __verif_throw(); return 0; }
  u64 r = SLEN(s) - pos; if (n < r) r = n;
  return (u32)vs_cmp_len(SP(s) + pos, r, p, vs_strlen(p));
}
#endif
#ifdef DECL__ZNKSt7__cxx1112basic_stringIcSt11char_traitsIcESaIcEE4findEPKcm
u64 _ZNKSt7__cxx1112basic_stringIcSt11char_traitsIcESaIcEE4findEPKcm(vstr *s, u8 *p, u64 pos)
{ return vs_find(SP(s), SLEN(s), p, vs_strlen(p), pos); }
#endif
#ifdef DECL__ZNKSt7__cxx1112basic_stringIcSt11char_traitsIcESaIcEE4findERKS4_m
u64 _ZNKSt7__cxx1112basic_stringIcSt11char_traitsIcESaIcEE4findERKS4_m(vstr *s, vstr *o, u64 pos)
{ return vs_find(SP(s), SLEN(s), SP(o), SLEN(o), pos); }
#endif
#ifdef DECL__ZNKSt7__cxx1112basic_stringIcSt11char_traitsIcESaIcEE4findEcm
u64 _ZNKSt7__cxx1112basic_stringIcSt11char_traitsIcESaIcEE4findEcm(vstr *s, u8 c, u64 pos)
{ return vs_find(SP(s), SLEN(s), &c, 1, pos); }
#endif
#ifdef DECL__ZNKSt7__cxx1112basic_stringIcSt11char_traitsIcESaIcEE5rfindEPKcm
u64 _ZNKSt7__cxx1112basic_stringIcSt11char_traitsIcESaIcEE5rfindEPKcm(vstr *s, u8 *p, u64 pos)
{ return vs_rfind(SP(s), SLEN(s), p, vs_strlen(p), pos); }
#endif
#ifdef DECL__ZNKSt7__cxx1112basic_stringIcSt11char_traitsIcESaIcEE5rfindEcm
u64 _ZNKSt7__cxx1112basic_stringIcSt11char_traitsIcESaIcEE5rfindEcm(vstr *s, u8 c, u64 pos)
{ return vs_rfind(SP(s), SLEN(s), &c, 1, pos); }
#endif
#ifdef DECL__ZNKSt7__cxx1112basic_stringIcSt11char_traitsIcESaIcEE5rfindERKS4_m
u64 _ZNKSt7__cxx1112basic_stringIcSt11char_traitsIcESaIcEE5rfindERKS4_m(vstr *s, vstr *o, u64 pos)
{ return vs_rfind(SP(s), SLEN(s), SP(o), SLEN(o), pos); }
#endif
#ifdef DECL__ZNKSt7__cxx1112basic_stringIcSt11char_traitsIcESaIcEE13find_first_ofERKS4_m
u64 _ZNKSt7__cxx1112basic_stringIcSt11char_traitsIcESaIcEE13find_first_ofERKS4_m(vstr *s, vstr *o, u64 pos)
{
  for (u64 i = pos; i < SLEN(s); i++)
    for (u64 j = 0; j < SLEN(o); j++)
      if (SP(s)[i] == SP(o)[j]) return i;
  return NPOS;
}
#endif
#ifdef DECL__ZNKSt7__cxx1112basic_stringIcSt11char_traitsIcESaIcEE13find_first_ofEPKcm
u64 _ZNKSt7__cxx1112basic_stringIcSt11char_traitsIcESaIcEE13find_first_ofEPKcm(vstr *s, u8 *p, u64 pos)
{
  u64 n = vs_strlen(p);
  for (u64 i = pos; i < SLEN(s); i++)
    for (u64 j = 0; j < n; j++)
      if (SP(s)[i] == p[j]) return i;
  return NPOS;
}
#endif

/* ---- std::vector<std::string>::push_back(string&&) contract model (used when a harness cuts the real
   _M_realloc_insert growth path): one block of VERIF_VEC_CAP elements allocated on first use, the moved
   string appended at end().  More than VERIF_VEC_CAP elements is a BOUND failure, never silently cut. */
struct vs_vec { vstr *b, *e, *c; }; /* _Vector_impl_data: begin, end, end of storage */
#if defined(DECL__ZNSt6vectorINSt7__cxx1112basic_stringIcSt11char_traitsIcESaIcEEESaIS5_EE9push_backEOS5_)
#ifndef VERIF_VEC_CAP
#define VERIF_VEC_CAP 4
#endif
void _ZNSt6vectorINSt7__cxx1112basic_stringIcSt11char_traitsIcESaIcEEESaIS5_EE9push_backEOS5_(void *v_, vstr *o)
{
  struct vs_vec *v = v_;
  vstr **b = &v->b, **e = &v->e, **c = &v->c;
  if (*b == 0) {
    vstr *blk = malloc(sizeof(vstr) * VERIF_VEC_CAP);
    __CPROVER_assume(blk != 0);
    *b = blk; *e = blk; *c = blk + VERIF_VEC_CAP;
  }
  __CPROVER_assert(*e != *c, "BOUND: vector<string> model capacity (VERIF_VEC_CAP) too small");
  __CPROVER_assume(*e != *c);
  vstr *s = *e;
  if (vs_is_local(o)) { SP(s) = SLOCAL(s); memcpy(SLOCAL(s), SLOCAL(o), 16); }
  else { SP(s) = SP(o); SCAP(s) = SCAP(o); }
  SLEN(s) = SLEN(o);
  vs_init_empty(o);
  *e = s + 1;
}
#endif

#if defined(DECL__ZNSt6vectorINSt7__cxx1112basic_stringIcSt11char_traitsIcESaIcEEESaIS5_EE9push_backERKS5_)
#ifndef VERIF_VEC_CAP
#define VERIF_VEC_CAP 4
#endif
/* push_back(const string&): same block model, the string is copied */
void _ZNSt6vectorINSt7__cxx1112basic_stringIcSt11char_traitsIcESaIcEEESaIS5_EE9push_backERKS5_(void *v_, vstr *o)
{
  struct vs_vec *v = v_;
  if (v->b == 0) {
    vstr *blk = malloc(sizeof(vstr) * VERIF_VEC_CAP);
    __CPROVER_assume(blk != 0);
    v->b = blk; v->e = blk; v->c = blk + VERIF_VEC_CAP;
  }
  __CPROVER_assert(v->e != v->c, "BOUND: vector<string> model capacity (VERIF_VEC_CAP) too small");
  __CPROVER_assume(v->e != v->c);
  vs_construct(v->e, SP(o), SLEN(o));
  v->e = v->e + 1;
}
#endif
/* vector<string>::operator[] contract (libstdc++ __glibcxx_requires_subscript): index < size() */
#if defined(DECL__ZNSt6vectorINSt7__cxx1112basic_stringIcSt11char_traitsIcESaIcEEESaIS5_EEixEm)
vstr *_ZNSt6vectorINSt7__cxx1112basic_stringIcSt11char_traitsIcESaIcEEESaIS5_EEixEm(void *v_, u64 i)
{
  struct vs_vec *v = v_;
  vstr *b = v->b, *e = v->e;
  u64 n = b ? (u64)(e - b) : 0; /* an empty vector has null begin/end */
  __CPROVER_assert(i < n, "VECTOR: operator[] index < size() (reads past the end of a vector<string>)");
  __CPROVER_assume(i < n);
  return b + i;
}
#endif
#endif /* !VERIF_NATIVE_REAL */
#endif /* HAVE basic_string */
