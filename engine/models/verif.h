/* Harness-side helpers shared by models and harnesses.
   Under CBMC, nondet_* are bodyless (fresh symbolic value per call).
   Under -DVERIF_NATIVE (replay / differential validation) they read the recorded
   counterexample values in order of call and the CPROVER primitives become run-time checks. */
#ifndef VERIF_H
#define VERIF_H
#include <stdint.h>
#include <stddef.h>

#ifdef VERIF_NATIVE
#include <stdio.h>
#include <stdlib.h>
#include <string.h>
extern unsigned long long verif_replay_vals[];
extern unsigned verif_replay_n;
extern unsigned verif_replay_i;
extern int verif_failed;
void verif_reject(const char *what);
void verif_prop(int cond, const char *tag);
static inline unsigned long long verif_next(void)
{ return verif_replay_i < verif_replay_n ? verif_replay_vals[verif_replay_i++] : 0ULL; }
#define nondet_u8() ((uint8_t)verif_next())
#define nondet_u16() ((uint16_t)verif_next())
#define nondet_u32() ((uint32_t)verif_next())
#define nondet_u64() ((uint64_t)verif_next())
#define nondet_bool() ((_Bool)(verif_next() & 1))
#undef __CPROVER_assume
#define __CPROVER_assume(c) do { if (!(c)) verif_reject(#c); } while (0)
/* model-internal assertions (BOUND:, STRING:, ABORT: ...): a failure is reported like a property failure
   but is not part of the differential digest (the real build has no model) */
#define __CPROVER_assert(c, m) do { if (!(c)) { if (!strncmp((m), "BOUND:", 6)) verif_reject(m); else { fprintf(stderr, "REPLAY-MODEL-ASSERT-FAILED: %s\n", m); verif_failed = 1; } } } while (0)
#define __CPROVER_cover(c) do { } while (0)
#define COVER(c) do { } while (0)
#define PROP(c, tag) verif_prop((c) ? 1 : 0, tag)
#else
/* every symbolic input passes through verif_in_*(v): the parameter assignment `verif_in_v = <value>` is what
   the driver reads from the counterexample trace, in call order, to replay it natively */
uint8_t nondet_u8_raw(void);
uint16_t nondet_u16_raw(void);
uint32_t nondet_u32_raw(void);
uint64_t nondet_u64_raw(void);
_Bool nondet_bool_raw(void);
static inline uint8_t verif_in_u8(uint8_t verif_in_v) { return verif_in_v; }
static inline uint16_t verif_in_u16(uint16_t verif_in_v) { return verif_in_v; }
static inline uint32_t verif_in_u32(uint32_t verif_in_v) { return verif_in_v; }
static inline uint64_t verif_in_u64(uint64_t verif_in_v) { return verif_in_v; }
static inline _Bool verif_in_bool(_Bool verif_in_v) { return verif_in_v; }
#define nondet_u8() verif_in_u8(nondet_u8_raw())
#define nondet_u16() verif_in_u16(nondet_u16_raw())
#define nondet_u32() verif_in_u32(nondet_u32_raw())
#define nondet_u64() verif_in_u64(nondet_u64_raw())
#define nondet_bool() verif_in_bool(nondet_bool_raw())
#ifdef VERIF_COVER
/* reachability twin: every COVER must come back FAILED (= reachable and satisfiable) */
#define COVER(c) __CPROVER_assert(!(c), "COVER: " #c)
#else
#define COVER(c) do { } while (0)
#endif
#endif

/* property assertion: the text before the first ':' is the tag used in known-findings.txt */
#ifndef VERIF_NATIVE
#define PROP(c, tag) __CPROVER_assert((c), tag)
#endif
/* end-of-harness reachability witness (checked by the cover run) */
#define WITNESS_END() COVER(1)

#ifdef HAVE_class_std____cxx11__basic_string
struct class_std____cxx11__basic_string;
void vs_make(struct class_std____cxx11__basic_string *s, const char *lit);
void vs_make_n(struct class_std____cxx11__basic_string *s, const uint8_t *p, uint64_t n);
void vs_nondet(struct class_std____cxx11__basic_string *s, uint64_t maxlen);
int vs_eq(struct class_std____cxx11__basic_string *a, struct class_std____cxx11__basic_string *b);
int vs_eq_lit(struct class_std____cxx11__basic_string *a, const char *lit);
int vs_wf(struct class_std____cxx11__basic_string *s);
#endif
#endif
