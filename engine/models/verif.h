/* Harness-side helpers shared by models and harnesses.
   Under CBMC, nondet_* are bodyless (fresh symbolic value per call).
   Under -DVERIF_NATIVE (replay / differential validation) they read the recorded
   counterexample values in order of call and the CPROVER primitives become run-time checks. */
#ifndef VERIF_H
#define VERIF_H
#include <stdint.h>
#include <stddef.h>

#ifdef VERIF_NATIVE
#include <stdio.h>
#include <stdlib.h>
extern unsigned long long verif_replay_vals[];
extern unsigned verif_replay_n;
extern unsigned verif_replay_i;
extern int verif_failed;
static inline unsigned long long verif_next(void)
{ return verif_replay_i < verif_replay_n ? verif_replay_vals[verif_replay_i++] : 0ULL; }
#define nondet_u8() ((uint8_t)verif_next())
#define nondet_u16() ((uint16_t)verif_next())
#define nondet_u32() ((uint32_t)verif_next())
#define nondet_u64() ((uint64_t)verif_next())
#define nondet_bool() ((_Bool)(verif_next() & 1))
#define __CPROVER_assume(c) do { if (!(c)) { fprintf(stderr, "REPLAY: assumption violated: %s\n", #c); exit(77); } } while (0)
#define __CPROVER_assert(c, m) do { if (!(c)) { fprintf(stderr, "REPLAY-ASSERT-FAILED: %s\n", m); verif_failed = 1; } } while (0)
#define __CPROVER_cover(c) do { } while (0)
#define COVER(c) do { } while (0)
#else
uint8_t nondet_u8(void);
uint16_t nondet_u16(void);
uint32_t nondet_u32(void);
uint64_t nondet_u64(void);
_Bool nondet_bool(void);
#ifdef VERIF_COVER
/* reachability twin: every COVER must come back FAILED (= reachable and satisfiable) */
#define COVER(c) __CPROVER_assert(!(c), "COVER: " #c)
#else
#define COVER(c) do { } while (0)
#endif
#endif

/* property assertion: the text before the first ':' is the tag used in known-findings.txt */
#define PROP(c, tag) __CPROVER_assert((c), tag)
/* end-of-harness reachability witness (checked by the cover run) */
#define WITNESS_END() COVER(1)

#ifdef HAVE_class_std____cxx11__basic_string
struct class_std____cxx11__basic_string;
void vs_make(struct class_std____cxx11__basic_string *s, const char *lit);
void vs_make_n(struct class_std____cxx11__basic_string *s, const uint8_t *p, uint64_t n);
void vs_nondet(struct class_std____cxx11__basic_string *s, uint64_t maxlen);
int vs_eq(struct class_std____cxx11__basic_string *a, struct class_std____cxx11__basic_string *b);
int vs_eq_lit(struct class_std____cxx11__basic_string *a, const char *lit);
int vs_wf(struct class_std____cxx11__basic_string *s);
#endif
#endif
