/* Runtime model: operator new/delete, abort/throw plumbing, trivial libc bits.
   Included after unit.h; every definition is guarded by the DECL_<name> macro unit.h
   emits for functions the translated unit leaves bodyless, so only what is needed is
   defined and the prototypes come from the real IR. */
#include "unit.h"
#include "verif.h"

#ifndef HARNESS_OWNS_ABORT
/* default policy: reaching abort/assert-failure/throw/unreachable is a violation */
void __verif_abort(void) { __CPROVER_assert(0, "ABORT: abort/ABG_ASSERT reached"); __CPROVER_assume(0); }
void __verif_throw(void) { __CPROVER_assert(0, "THROW: C++ exception thrown"); __CPROVER_assume(0); }
void __verif_unreachable(void) { __CPROVER_assert(0, "UNREACHABLE: llvm unreachable executed"); __CPROVER_assume(0); }
#endif
#ifndef HARNESS_OWNS_EXIT
void __verif_exit(u32 code) { __CPROVER_assume(0); }
#endif

#ifndef VERIF_NEW_MAX
#define VERIF_NEW_MAX 1024
#endif
/* operator new with a size that is not an IR constant: the object gets a constant size (next power of two),
   because CBMC's array theory does not cope with heap objects of symbolic size.  Consequence (stated in the
   evidence): an overrun of such a block by less than the rounding slack is not detected. */
void __verif_new_bound(u64 n, u64 max)
{
  __CPROVER_assert(n <= max, "BOUND: operator new size exceeds VERIF_NEW_ELEMS elements");
  __CPROVER_assume(n <= max);
}
u8 *__verif_new_var(u64 n)
{
  u8 *p;
  __CPROVER_assert(n <= VERIF_NEW_MAX, "BOUND: operator new size exceeds VERIF_NEW_MAX");
  __CPROVER_assume(n <= VERIF_NEW_MAX);
  if (n <= 8) p = malloc(8);
  else if (n <= 16) p = malloc(16);
  else if (n <= 32) p = malloc(32);
  else if (n <= 64) p = malloc(64);
  else if (n <= 128) p = malloc(128);
  else if (n <= 256) p = malloc(256);
  else if (n <= 512) p = malloc(512);
  else p = malloc(VERIF_NEW_MAX);
  __CPROVER_assume(p != 0);
  return p;
}
#ifdef DECL__ZdlPv
void _ZdlPv(u8 *p) { free(p); }
#endif
#ifdef DECL__ZdaPv
void _ZdaPv(u8 *p) { free(p); }
#endif
#ifdef DECL__ZdlPvm
void _ZdlPvm(u8 *p, u64 n) { free(p); }
#endif
#ifdef DECL___assert_fail
void __assert_fail(u8 *a, u8 *b, u32 c, u8 *d) { __verif_abort(); }
#endif
#ifdef DECL_abort
void abort(void) { __verif_abort(); }
#endif
#ifdef DECL__ZSt9terminatev
void _ZSt9terminatev(void) { __verif_abort(); }
#endif
#ifdef DECL___cxa_pure_virtual
void __cxa_pure_virtual(void) { __verif_abort(); }
#endif
#ifdef DECL___cxa_allocate_exception
u8 *__cxa_allocate_exception(u64 n) { u8 *p = malloc(n); __CPROVER_assume(p != 0); return p; }
#endif
#ifdef DECL___cxa_throw
void __cxa_throw(u8 *a, u8 *b, u8 *c) { __verif_throw(); }
#endif
#ifdef DECL___cxa_rethrow
void __cxa_rethrow(void) { __verif_throw(); }
#endif
#ifdef DECL___cxa_free_exception
void __cxa_free_exception(u8 *a) { }
#endif
#ifdef DECL__ZSt20__throw_length_errorPKc
void _ZSt20__throw_length_errorPKc(u8 *m) { __verif_throw(); }
#endif
#ifdef DECL__ZSt19__throw_logic_errorPKc
void _ZSt19__throw_logic_errorPKc(u8 *m) { __verif_throw(); }
#endif
#ifdef DECL__ZSt24__throw_out_of_range_fmtPKcz
void _ZSt24__throw_out_of_range_fmtPKcz(u8 *m, ...) { __verif_throw(); }
#endif
#ifdef DECL__ZSt20__throw_out_of_rangePKc
void _ZSt20__throw_out_of_rangePKc(u8 *m) { __verif_throw(); }
#endif
#ifdef DECL__ZSt17__throw_bad_allocv
void _ZSt17__throw_bad_allocv(void) { __verif_throw(); }
#endif
#ifdef DECL__ZSt28__throw_bad_array_new_lengthv
void _ZSt28__throw_bad_array_new_lengthv(void) { __verif_throw(); }
#endif
#ifdef DECL__ZSt25__throw_bad_function_callv
void _ZSt25__throw_bad_function_callv(void) { __verif_throw(); }
#endif
#ifdef DECL__ZSt16__throw_bad_castv
void _ZSt16__throw_bad_castv(void) { __verif_throw(); }
#endif
#ifdef DECL___cxa_atexit
u32 __cxa_atexit(void (*f)(u8 *), u8 *a, u8 *d) { return 0; }
#endif
#ifdef DECL___cxa_guard_acquire
u32 __cxa_guard_acquire(u64 *g) { return *(u8 *)g == 0; }
#endif
#ifdef DECL___cxa_guard_release
void __cxa_guard_release(u64 *g) { *(u8 *)g = 1; }
#endif
#ifdef DECL___cxa_guard_abort
void __cxa_guard_abort(u64 *g) { }
#endif
#ifdef DECL__ZNSaIcEC2Ev
void _ZNSaIcEC2Ev(void *a) { }
#endif
#ifdef DECL__ZNSaIcEC1Ev
void _ZNSaIcEC1Ev(void *a) { }
#endif
#ifdef DECL__ZNSaIcED2Ev
void _ZNSaIcED2Ev(void *a) { }
#endif
#ifdef DECL__ZNSaIcED1Ev
void _ZNSaIcED1Ev(void *a) { }
#endif
#ifdef DECL__ZNSaIcEC2ERKS_
void _ZNSaIcEC2ERKS_(void *a, void *b) { }
#endif
#ifdef DECL__ZNSt8ios_base4InitC1Ev
void _ZNSt8ios_base4InitC1Ev(void *a) { }
#endif
#ifdef DECL__ZNSt8ios_base4InitD1Ev
void _ZNSt8ios_base4InitD1Ev(void *a) { }
#endif
#ifdef DECL_isspace
u32 isspace(u32 c) { return c == ' ' || (c >= 9 && c <= 13); }
#endif
#ifdef DECL_isalnum
u32 isalnum(u32 c) { return (c >= '0' && c <= '9') || (c >= 'a' && c <= 'z') || (c >= 'A' && c <= 'Z'); }
#endif
#ifdef DECL_isdigit
u32 isdigit(u32 c) { return (c >= '0' && c <= '9'); }
#endif
/* diagnostics printed to std::cerr/std::cout (e.g. by ABG_ASSERT_NOT_REACHED): formatting is not the subject */
#if defined(DECL__ZNSolsEi) && defined(HAVE_class_std__basic_ostream) && !defined(VERIF_OSTREAM_MODEL)
void *_ZNSolsEi(void *os, u32 v) { return os; }
#endif
#if defined(DECL__ZStlsISt11char_traitsIcEERSt13basic_ostreamIcT_ES5_PKc) && defined(HAVE_class_std__basic_ostream) && !defined(VERIF_OSTREAM_MODEL)
void *_ZStlsISt11char_traitsIcEERSt13basic_ostreamIcT_ES5_PKc(void *os, u8 *s) { return os; }
#endif
#if defined(VERIF_NATIVE) && defined(HAVE_class_std__basic_ostream) && !defined(VERIF_OSTREAM_MODEL)
/* native build of the translated unit: the stream objects only need an address */
#ifdef DECLG__ZSt4cerr
struct class_std__basic_ostream _ZSt4cerr;
#endif
#ifdef DECLG__ZSt4cout
struct class_std__basic_ostream _ZSt4cout;
#endif
#endif
